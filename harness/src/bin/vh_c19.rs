//! vh_c19 -- C19: the language server, driven over an in-memory JSON-RPC connection, and the
//! evaluator/codemap run on the same documents.
//!
//!   vh_c19 docs <cases.ndjson> <out.ndjson>     G: one generated document per case
//!   vh_c19 hist <cases.ndjson> <trace.ndjson>   V: open/change/close/request histories -> trace
//!
//! This binary knows nothing about scoping or position arithmetic.  It (a) turns code-point
//! sequences printed by TLC into text, (b) sends the notifications/requests it is told to send to
//! the real `starlark_lsp::server::server_with_connection` and reports the raw answers together
//! with every {start,end} range found in them (and which document each refers to), (c) runs the
//! document with the real evaluator with a host builtin `u(tag, value)` that records what each
//! tagged use read, and (d) reports the codemap's resolution of every AST/error span next to its
//! byte offsets.  Every comparison with the specification's expectations is done by lib/c19.py
//! or by Trace_LspDocs.tla.  A panic, a dropped connection or a request that is not answered in
//! time is an observation ("panic"/"dropped"/"hang"), never a tool error.
#![allow(clippy::all)]
#![allow(dead_code)]

#[path = "../util.rs"]
mod util;

use std::cell::RefCell;
use std::collections::HashMap;
use std::path::Path;
use std::path::PathBuf;
use std::process::ExitCode;
use std::str::FromStr;
use std::sync::Arc;
use std::sync::RwLock;
use std::time::Duration;
use std::time::Instant;

use lsp_server::Connection;
use lsp_server::Message;
use lsp_server::RequestId;
use lsp_types::Uri;
use serde_json::json;
use serde_json::Value as J;
use starlark::analysis::AstModuleLint;
use starlark::any::ProvidesStaticType;
use starlark::codemap::CodeMap;
use starlark::codemap::Span;
use starlark::docs::DocModule;
use starlark::environment::FrozenModule;
use starlark::environment::Globals;
use starlark::environment::GlobalsBuilder;
use starlark::environment::Module;
use starlark::errors::EvalMessage;
use starlark::eval::Evaluator;
use starlark::eval::ReturnFileLoader;
use starlark::starlark_module;
use starlark::syntax::AstModule;
use starlark::syntax::Dialect;
use starlark::values::Value;
use starlark_lsp::error::eval_message_to_lsp_diagnostic;
use starlark_lsp::server::server_with_connection;
use starlark_lsp::server::LspContext;
use starlark_lsp::server::LspEvalResult;
use starlark_lsp::server::LspUri;
use starlark_lsp::server::StringLiteralResult;
use starlark_syntax::syntax::module::AstModuleFields;
use starlark_syntax::syntax::uniplate::Visit;

const TIMEOUT: Duration = Duration::from_secs(10);

fn text_of(cps: &J) -> String {
    cps.as_array()
        .map(|a| {
            a.iter()
                .filter_map(|c| c.as_u64().and_then(|c| char::from_u32(c as u32)))
                .collect()
        })
        .unwrap_or_default()
}

// ---------------------------------------------------------------------------------------------
// LspContext: the shape of starlark_lsp/src/test.rs::TestServerContext, files held in memory.

struct Ctx {
    files: Arc<RwLock<HashMap<PathBuf, String>>>,
}

fn file_uri(path: &Path) -> Result<LspUri, String> {
    let u = Uri::from_str(&format!("file://{}", path.display())).map_err(|e| e.to_string())?;
    LspUri::try_from(u).map_err(|e| e.to_string())
}

impl LspContext for Ctx {
    fn parse_file_with_contents(&self, uri: &LspUri, content: String) -> LspEvalResult {
        match uri {
            LspUri::File(path) | LspUri::Starlark(path) => {
                match AstModule::parse(&path.to_string_lossy(), content, &Dialect::AllOptionsInternal) {
                    Ok(ast) => {
                        let diagnostics = ast
                            .lint(None)
                            .into_iter()
                            .map(|l| eval_message_to_lsp_diagnostic(EvalMessage::from(l)))
                            .collect();
                        LspEvalResult { diagnostics, ast: Some(ast) }
                    }
                    Err(e) => {
                        let diagnostics = vec![eval_message_to_lsp_diagnostic(EvalMessage::from_error(path, &e))];
                        LspEvalResult { diagnostics, ast: None }
                    }
                }
            }
            _ => LspEvalResult::default(),
        }
    }

    fn resolve_load(&self, path: &str, current_file: &LspUri, _root: Option<&Path>) -> Result<LspUri, String> {
        let path = PathBuf::from(path);
        match current_file {
            LspUri::File(cur) => {
                let abs = if path.is_absolute() {
                    path
                } else {
                    match cur.parent() {
                        Some(d) => d.join(&path),
                        None => return Err("no parent".to_owned()),
                    }
                };
                file_uri(&abs)
            }
            _ => Err("not a file uri".to_owned()),
        }
    }

    fn render_as_load(&self, target: &LspUri, _current: &LspUri, _root: Option<&Path>) -> Result<String, String> {
        match target {
            LspUri::File(p) => Ok(format!("{}", p.file_name().map(|f| f.to_string_lossy().into_owned()).unwrap_or_default())),
            _ => Err("not a file uri".to_owned()),
        }
    }

    fn resolve_string_literal(
        &self,
        _literal: &str,
        _current: &LspUri,
        _root: Option<&Path>,
    ) -> Result<Option<StringLiteralResult>, String> {
        Ok(None)
    }

    fn get_load_contents(&self, uri: &LspUri) -> Result<Option<String>, String> {
        match uri {
            LspUri::File(p) => Ok(self.files.read().unwrap().get(p).cloned()),
            _ => Ok(None),
        }
    }

    fn get_environment(&self, _uri: &LspUri) -> DocModule {
        DocModule::default()
    }

    fn get_uri_for_global_symbol(&self, _current: &LspUri, _symbol: &str) -> Result<Option<LspUri>, String> {
        Ok(None)
    }
}

// ---------------------------------------------------------------------------------------------
// JSON-RPC client over the in-memory connection.

struct Client {
    conn: Connection,
    thread: Option<std::thread::JoinHandle<()>>,
    files: Arc<RwLock<HashMap<PathBuf, String>>>,
    next_id: i32,
    notifs: Vec<lsp_server::Notification>,
    dead: bool,
}

enum Obs {
    Ok(J),
    Error(J),
    Hang,
    Dropped,
}

impl Obs {
    fn tag(&self) -> &'static str {
        match self {
            Obs::Ok(_) => "ok",
            Obs::Error(_) => "error",
            Obs::Hang => "hang",
            Obs::Dropped => "dropped",
        }
    }
    fn value(&self) -> J {
        match self {
            Obs::Ok(v) | Obs::Error(v) => v.clone(),
            _ => J::Null,
        }
    }
}

impl Client {
    fn start() -> Result<Client, String> {
        let (server, client) = Connection::memory();
        let files: Arc<RwLock<HashMap<PathBuf, String>>> = Arc::default();
        let ctx = Ctx { files: files.clone() };
        let thread = std::thread::Builder::new()
            .stack_size(64 << 20)
            .spawn(move || {
                let _ = server_with_connection(server, ctx);
            })
            .map_err(|e| e.to_string())?;
        let mut c = Client { conn: client, thread: Some(thread), files, next_id: 0, notifs: Vec::new(), dead: false };
        let init = json!({"processId": null, "rootUri": null, "capabilities": {"textDocument": {"definition": {"dynamicRegistration": true, "linkSupport": true}}}});
        match c.request("initialize", init) {
            Obs::Ok(_) => {}
            o => return Err(format!("initialize: {}", o.tag())),
        }
        c.notify("initialized", json!({}));
        Ok(c)
    }

    fn send(&mut self, m: Message) -> bool {
        if self.conn.sender.send(m).is_err() {
            self.dead = true;
            return false;
        }
        true
    }

    fn notify(&mut self, method: &str, params: J) -> bool {
        self.send(Message::Notification(lsp_server::Notification { method: method.to_owned(), params }))
    }

    /// Send a request and wait for its response; notifications met on the way are queued.
    fn request(&mut self, method: &str, params: J) -> Obs {
        self.next_id += 1;
        let id = RequestId::from(self.next_id);
        if !self.send(Message::Request(lsp_server::Request { id: id.clone(), method: method.to_owned(), params })) {
            return Obs::Dropped;
        }
        let deadline = Instant::now() + TIMEOUT;
        loop {
            let left = deadline.saturating_duration_since(Instant::now());
            match self.conn.receiver.recv_timeout(left) {
                Ok(Message::Response(r)) => {
                    if r.id == id {
                        return match (r.result, r.error) {
                            (_, Some(e)) => Obs::Error(serde_json::to_value(e).unwrap_or(J::Null)),
                            (Some(v), None) => Obs::Ok(v),
                            (None, None) => Obs::Ok(J::Null),
                        };
                    }
                }
                Ok(Message::Notification(n)) => self.notifs.push(n),
                Ok(Message::Request(_)) => {}
                Err(e) => {
                    self.dead = true;
                    return if e.is_timeout() { Obs::Hang } else { Obs::Dropped };
                }
            }
        }
    }

    /// Wait for the next publishDiagnostics notification for `uri`.
    fn wait_diag(&mut self, uri: &str) -> Obs {
        let deadline = Instant::now() + TIMEOUT;
        loop {
            if let Some(i) = self.notifs.iter().position(|n| {
                n.method == "textDocument/publishDiagnostics" && n.params.get("uri").and_then(|u| u.as_str()) == Some(uri)
            }) {
                let n = self.notifs.remove(i);
                self.notifs.retain(|n| n.method != "window/logMessage");
                return Obs::Ok(n.params);
            }
            let left = deadline.saturating_duration_since(Instant::now());
            match self.conn.receiver.recv_timeout(left) {
                Ok(Message::Notification(n)) => self.notifs.push(n),
                Ok(_) => {}
                Err(e) => {
                    self.dead = true;
                    return if e.is_timeout() { Obs::Hang } else { Obs::Dropped };
                }
            }
        }
    }

    fn log_messages(&mut self) -> Vec<J> {
        let (logs, rest): (Vec<_>, Vec<_>) = std::mem::take(&mut self.notifs).into_iter().partition(|n| n.method == "window/logMessage");
        self.notifs = rest;
        logs.into_iter().map(|n| n.params).collect()
    }

    fn shutdown(mut self) {
        if !self.dead {
            if let Obs::Ok(_) = self.request("shutdown", J::Null) {
                self.notify("exit", J::Null);
                if let Some(t) = self.thread.take() {
                    let _ = t.join();
                }
            }
        }
        // a dead/hung server thread is abandoned
    }
}

/// Every {start:{line,character},end:{line,character}} in `v`, with the document it refers to:
/// inside a LocationLink the target ranges belong to targetUri, inside a Location to uri,
/// everything else to the document the request was about (`own`).
fn collect_ranges(v: &J, own: &str, cur: &str, key: &str, out: &mut Vec<J>) {
    match v {
        J::Object(m) => {
            let is_pos = |p: Option<&J>| p.map_or(false, |p| p.get("line").map_or(false, |x| x.is_u64()) && p.get("character").map_or(false, |x| x.is_u64()));
            if is_pos(m.get("start")) && is_pos(m.get("end")) {
                let g = |a: &str, b: &str| m[a][b].as_u64().unwrap();
                out.push(json!({"uri": cur, "key": key,
                    "r": [g("start", "line"), g("start", "character"), g("end", "line"), g("end", "character")]}));
                return;
            }
            let target = m.get("targetUri").and_then(|u| u.as_str());
            let loc = if m.contains_key("range") { m.get("uri").and_then(|u| u.as_str()) } else { None };
            for (k, x) in m {
                let c = if let (Some(t), true) = (target, k.starts_with("target")) {
                    t
                } else if let (Some(l), true) = (loc, k == "range") {
                    l
                } else if k == "originSelectionRange" {
                    own
                } else {
                    cur
                };
                collect_ranges(x, own, c, k, out);
            }
        }
        J::Array(a) => {
            for x in a {
                collect_ranges(x, own, cur, key, out);
            }
        }
        _ => {}
    }
}

fn obs_json(o: &Obs, own: &str) -> J {
    let mut ranges = Vec::new();
    let v = o.value();
    collect_ranges(&v, own, own, "", &mut ranges);
    json!({"obs": o.tag(), "result": v, "ranges": ranges})
}

fn td_pos(uri: &str, l: u64, c: u64) -> J {
    json!({"textDocument": {"uri": uri}, "position": {"line": l, "character": c}})
}

fn method_of(kind: &str) -> &'static str {
    match kind {
        "def" => "textDocument/definition",
        "hover" => "textDocument/hover",
        "compl" => "textDocument/completion",
        _ => "textDocument/definition",
    }
}

// ---------------------------------------------------------------------------------------------
// The evaluator on the same document.

#[derive(Debug, ProvidesStaticType, Default)]
struct Store(RefCell<Vec<(String, String)>>);

#[starlark_module]
fn verif_globals(builder: &mut GlobalsBuilder) {
    /// Records (tag, value read) and returns the value.
    fn u<'v>(tag: &str, v: Value<'v>, eval: &mut Evaluator<'v, '_, '_>) -> anyhow::Result<Value<'v>> {
        let s = match v.unpack_str() {
            Some(s) => s.to_owned(),
            None => format!("<{}>", v.get_type()),
        };
        eval.extra.unwrap().downcast_ref::<Store>().unwrap().0.borrow_mut().push((tag.to_owned(), s));
        Ok(v)
    }
}

fn globals() -> Globals {
    GlobalsBuilder::standard().with(verif_globals).build()
}

fn span_json(cm: &CodeMap, span: Span) -> J {
    let r = cm.resolve_span(span);
    json!({"b": span.begin().get(), "e": span.end().get(),
           "r": [r.begin.line, r.begin.column, r.end.line, r.end.column],
           "lsp": {"start": {"line": lsp_types::Range::from(r).start.line, "character": lsp_types::Range::from(r).start.character},
                   "end": {"line": lsp_types::Range::from(r).end.line, "character": lsp_types::Range::from(r).end.character}}})
}

fn err_json(e: &starlark::Error) -> J {
    let msg = format!("{}", e.without_diagnostic());
    let span = e.span().map(|fs| {
        let mut j = span_json(&fs.file, fs.span);
        j["text"] = json!(fs.source_span());
        let r = fs.resolve_span();
        j["fr"] = json!([r.begin.line, r.begin.column, r.end.line, r.end.column]);
        j
    });
    json!({"msg": msg.lines().next().unwrap_or(""), "span": span})
}

fn run_doc(text: &str, loaded: Option<&str>) -> J {
    let g = globals();
    let store = Store::default();
    let r = util::catch(|| -> Result<(), starlark::Error> {
        let mut frozen: Option<FrozenModule> = None;
        if let Some(l) = loaded {
            let ast = AstModule::parse("m.star", l.to_owned(), &Dialect::AllOptionsInternal)?;
            let fm = Module::with_temp_heap(|m| {
                {
                    let mut eval = Evaluator::new(&m);
                    eval.extra = Some(&store);
                    eval.eval_module(ast, &g)?;
                }
                m.freeze().map_err(|e| starlark::Error::new_other(anyhow::anyhow!("{:?}", e)))
            })?;
            frozen = Some(fm);
        }
        let ast = AstModule::parse("main.star", text.to_owned(), &Dialect::AllOptionsInternal)?;
        let mut mods: HashMap<&str, &FrozenModule> = HashMap::new();
        if let Some(f) = &frozen {
            mods.insert("m.star", f);
        }
        let loader = ReturnFileLoader { modules: &mods };
        Module::with_temp_heap(|m| {
            let mut eval = Evaluator::new(&m);
            eval.extra = Some(&store);
            eval.set_loader(&loader);
            eval.eval_module(ast, &g).map(|_| ())
        })
    });
    let transcript: Vec<J> = store.0.borrow().iter().map(|(t, v)| json!([t, v])).collect();
    match r {
        Ok(Ok(())) => json!({"obs": "ok", "transcript": transcript, "err": null}),
        Ok(Err(e)) => json!({"obs": "error", "transcript": transcript, "err": err_json(&e)}),
        Err(p) => json!({"obs": "panic", "transcript": transcript, "err": {"msg": p, "span": null}}),
    }
}

/// Every statement / expression / assigned-identifier span of the parsed document, resolved by the
/// codemap, next to its byte offsets; or the parse error's span.
fn spans_doc(text: &str) -> J {
    let r = util::catch(|| match AstModule::parse("main.star", text.to_owned(), &Dialect::AllOptionsInternal) {
        Ok(ast) => {
            let cm = ast.codemap().clone();
            let mut out: Vec<J> = Vec::new();
            fn walk(cm: &CodeMap, node: Visit<starlark_syntax::syntax::ast::AstNoPayload>, out: &mut Vec<J>) {
                match &node {
                    Visit::Stmt(s) => {
                        out.push(span_json(cm, s.span));
                        if let starlark_syntax::syntax::ast::StmtP::Def(d) = &s.node {
                            out.push(span_json(cm, d.name.span));
                            for p in &d.params {
                                out.push(span_json(cm, p.span));
                            }
                        }
                        if let starlark_syntax::syntax::ast::StmtP::Assign(a) = &s.node {
                            a.lhs.visit_lvalue(|x| out.push(span_json(cm, x.span)));
                        }
                        if let starlark_syntax::syntax::ast::StmtP::For(f) = &s.node {
                            f.var.visit_lvalue(|x| out.push(span_json(cm, x.span)));
                        }
                    }
                    Visit::Expr(e) => out.push(span_json(cm, e.span)),
                }
                node.visit_children(|c| walk(cm, c, out));
            }
            walk(&cm, Visit::Stmt(ast.statement()), &mut out);
            json!({"parse": "ok", "spans": out, "err": null})
        }
        Err(e) => json!({"parse": "error", "spans": [], "err": err_json(&e)}),
    });
    match r {
        Ok(j) => j,
        Err(p) => json!({"parse": "panic", "spans": [], "err": {"msg": p, "span": null}}),
    }
}

// ---------------------------------------------------------------------------------------------

fn cmd_docs(cases_path: &str, out_path: &str) -> anyhow::Result<()> {
    let cases = util::read_ndjson(cases_path)?;
    let mut w = util::NdWriter::create(out_path)?;
    let mut client: Option<Client> = None;
    for (idx, case) in cases.iter().enumerate() {
        let text = text_of(&case["text"]);
        let loaded = if case["loaded"].is_array() { Some(text_of(&case["loaded"])) } else { None };
        let mut out = json!({"id": case["id"]});
        if case["lsp"].as_bool().unwrap_or(true) {
            if client.as_ref().map_or(true, |c| c.dead) {
                client = Some(Client::start().map_err(|e| anyhow::anyhow!("cannot start server: {}", e))?);
            }
            let c = client.as_mut().unwrap();
            let dir = format!("/c19/d{}", idx);
            let uri = format!("file://{}/main.star", dir);
            if let Some(l) = &loaded {
                if case["loaded_on_disk"].as_bool().unwrap_or(true) {
                    c.files.write().unwrap().insert(PathBuf::from(format!("{}/m.star", dir)), l.clone());
                }
            }
            c.notify("textDocument/didOpen", json!({"textDocument": {"uri": uri, "languageId": "starlark", "version": 1, "text": text}}));
            let d = c.wait_diag(&uri);
            out["diag"] = obs_json(&d, &uri);
            let mut resps = Vec::new();
            if let Some(reqs) = case["reqs"].as_array() {
                for rq in reqs {
                    if c.dead {
                        resps.push(json!({"obs": "dropped", "result": null, "ranges": []}));
                        continue;
                    }
                    let kind = rq["k"].as_str().unwrap_or("def");
                    let o = c.request(method_of(kind), td_pos(&uri, rq["l"].as_u64().unwrap_or(0), rq["c"].as_u64().unwrap_or(0)));
                    resps.push(obs_json(&o, &uri));
                }
            }
            out["resps"] = J::Array(resps);
            out["uri"] = json!(uri);
            out["logs"] = J::Array(c.log_messages());
            if !c.dead {
                c.notify("textDocument/didClose", json!({"textDocument": {"uri": uri}}));
                let _ = c.wait_diag(&uri);
            }
        }
        if case["run"].as_bool().unwrap_or(false) {
            out["run"] = run_doc(&text, loaded.as_deref());
        }
        if case["spans"].as_bool().unwrap_or(false) {
            out["spans"] = spans_doc(&text);
        }
        w.write(&out)?;
    }
    if let Some(c) = client {
        c.shutdown();
    }
    w.finish()
}

fn r4s(ranges: &[J], uri: &str) -> (Vec<J>, usize) {
    let mut own = Vec::new();
    let mut other = 0;
    for r in ranges {
        if r["uri"].as_str() == Some(uri) {
            own.push(r["r"].clone());
        } else {
            other += 1;
        }
    }
    (own, other)
}

/// Replays histories; one fresh server per history. Events are what Trace_LspDocs.tla reads.
fn cmd_hist(cases_path: &str, out_path: &str) -> anyhow::Result<()> {
    let cases = util::read_ndjson(cases_path)?;
    let mut w = util::NdWriter::create(out_path)?;
    for case in &cases {
        w.write(&json!({"a": "reset", "h": case["id"]}))?;
        let mut c = Client::start().map_err(|e| anyhow::anyhow!("cannot start server: {}", e))?;
        let mut versions: HashMap<u64, u64> = HashMap::new();
        let texts = &case["texts"];
        for st in case["steps"].as_array().map(|a| a.as_slice()).unwrap_or(&[]) {
            let a = st["a"].as_str().unwrap_or("");
            let u = st["u"].as_u64().unwrap_or(0);
            let uri = format!("file:///c19/h/doc{}.star", u);
            if c.dead {
                w.write(&json!({"a": "dead", "u": u}))?;
                break;
            }
            match a {
                "open" | "change" => {
                    let t = st["t"].as_u64().unwrap_or(0);
                    let text = text_of(&texts[t.to_string()]);
                    let v = versions.get(&u).copied().unwrap_or(0) + 1;
                    versions.insert(u, v);
                    if a == "open" {
                        c.notify("textDocument/didOpen", json!({"textDocument": {"uri": uri, "languageId": "starlark", "version": v, "text": text}}));
                    } else {
                        c.notify("textDocument/didChange", json!({"textDocument": {"uri": uri, "version": v}, "contentChanges": [{"text": text}]}));
                    }
                    w.write(&json!({"a": a, "u": u, "t": t, "v": v}))?;
                    let d = c.wait_diag(&uri);
                    let oj = obs_json(&d, &uri);
                    let (rs, other) = r4s(oj["ranges"].as_array().unwrap(), &uri);
                    let dv = oj["result"]["version"].as_u64().unwrap_or(0);
                    w.write(&json!({"a": "diag", "u": u, "v": dv, "obs": oj["obs"], "rs": rs, "other": other}))?;
                }
                "close" => {
                    c.notify("textDocument/didClose", json!({"textDocument": {"uri": uri}}));
                    w.write(&json!({"a": "close", "u": u}))?;
                    let d = c.wait_diag(&uri);
                    let oj = obs_json(&d, &uri);
                    let (rs, other) = r4s(oj["ranges"].as_array().unwrap(), &uri);
                    w.write(&json!({"a": "diag", "u": u, "v": 0, "obs": oj["obs"], "rs": rs, "other": other}))?;
                }
                "req" => {
                    let kind = st["k"].as_str().unwrap_or("def");
                    let (l, ch) = (st["l"].as_u64().unwrap_or(0), st["c"].as_u64().unwrap_or(0));
                    let o = c.request(method_of(kind), td_pos(&uri, l, ch));
                    let oj = obs_json(&o, &uri);
                    let all = oj["ranges"].as_array().unwrap();
                    let (rs, other) = r4s(all, &uri);
                    // the definition target (targetSelectionRange of the first link in this document), if any
                    let tg: Vec<J> = all.iter().filter(|r| r["key"] == "targetSelectionRange" && r["uri"].as_str() == Some(&uri)).map(|r| r["r"].clone()).collect();
                    w.write(&json!({"a": "req", "u": u, "t": st["t"], "k": kind, "q": st["q"], "l": l, "c": ch, "obs": oj["obs"], "rs": rs, "tg": tg, "other": other}))?;
                }
                _ => {}
            }
        }
        c.shutdown();
    }
    w.finish()
}

fn main() -> ExitCode {
    let args: Vec<String> = std::env::args().collect();
    std::panic::set_hook(Box::new(|info| {
        util::LAST_PANIC.with(|p| *p.borrow_mut() = Some(format!("{}", info)));
    }));
    let r = match (args.get(1).map(|s| s.as_str()), args.len()) {
        (Some("docs"), 4) => cmd_docs(&args[2], &args[3]),
        (Some("hist"), 4) => cmd_hist(&args[2], &args[3]),
        _ => {
            eprintln!("usage: vh_c19 docs|hist <cases.ndjson> <out.ndjson>");
            return ExitCode::from(2);
        }
    };
    match r {
        Ok(()) => ExitCode::SUCCESS,
        Err(e) => {
            eprintln!("vh_c19: {:#}", e);
            ExitCode::from(2)
        }
    }
}

//! vh_c08: replays TLC-generated (signature, call, expected) cases of spec/ArgBind.tla on the real
//! evaluator, issuing every call through every path a call can take, and compares what the callee
//! received with what the specification prescribes.
//!
//!   vh_c08 run <cases|-> <out.json> [--log F] [--threads N] [--chunk N] [--top N] [--paths a,b,..] [--verbose 1]
//!   vh_c08 static <toks.ndjson> <out.json>
//!
//! `<cases>` is either TLC's raw stdout (lines `<<"CASE", "json">>`) or plain ndjson.
//! Expected values come from TLC only; this program compares and reports.
#![allow(clippy::all)]
#![allow(dead_code)]

#[path = "../util.rs"]
mod util;

use std::collections::BTreeMap;
use std::collections::HashMap;
use std::io::BufRead;
use std::process::ExitCode;
use std::sync::atomic::AtomicUsize;
use std::sync::atomic::Ordering;
use std::sync::Mutex;

use serde_json::json;
use serde_json::Value as J;
use starlark::__derive_refs::components::NativeCallableComponents;
use starlark::__derive_refs::param_spec::NativeCallableParamSpec;
use starlark::environment::FrozenModule;
use starlark::environment::Globals;
use starlark::environment::GlobalsBuilder;
use starlark::environment::LibraryExtension;
use starlark::environment::Module;
use starlark::eval::Arguments;
use starlark::eval::Evaluator;
use starlark::eval::FileLoader;
use starlark::eval::ParametersSpec;
use starlark::eval::ParametersSpecParam;
use starlark::syntax::AstModule;
use starlark::syntax::Dialect;
use starlark::typing::Ty;
use starlark::values::dict::DictRef;
use starlark::values::tuple::TupleRef;
use starlark::values::FrozenValue;
use starlark::values::Value;

// ------------------------------------------------------------------------------------------
// case model (as printed by Gen_ArgBind.tla)

#[derive(Clone, Debug)]
struct Param {
    name: String,
    kind: String, // posonly normal args kwonly kwargs
    default: i64, // 0 = none
}

#[derive(Clone, Debug)]
struct Case {
    raw: J,
    sig_key: String,
    sig: Vec<Param>,
    pos: Vec<i64>,
    named: Vec<(String, i64)>,
    star: Option<Vec<i64>>,
    starstar: Option<Vec<(String, i64)>>,
    exp_ok: bool,
    exp_vals: J,
}

fn kv(j: &J) -> Vec<(String, i64)> {
    j.as_array()
        .unwrap()
        .iter()
        .map(|p| (p[0].as_str().unwrap().to_owned(), p[1].as_i64().unwrap()))
        .collect()
}

fn ints(j: &J) -> Vec<i64> {
    j.as_array().unwrap().iter().map(|x| x.as_i64().unwrap()).collect()
}

fn parse_case(raw: J) -> Case {
    let sig: Vec<Param> = raw["sig"]
        .as_array()
        .unwrap()
        .iter()
        .map(|p| Param {
            name: p[0].as_str().unwrap().to_owned(),
            kind: p[1].as_str().unwrap().to_owned(),
            default: p[2].as_i64().unwrap(),
        })
        .collect();
    let c = &raw["call"];
    Case {
        sig_key: raw["sig"].to_string(),
        sig,
        pos: ints(&c["p"]),
        named: kv(&c["n"]),
        star: if c["hs"].as_i64().unwrap() == 1 { Some(ints(&c["s"])) } else { None },
        starstar: if c["hm"].as_i64().unwrap() == 1 { Some(kv(&c["m"])) } else { None },
        exp_ok: raw["ok"].as_i64().unwrap() == 1,
        exp_vals: raw["vals"].clone(),
        raw,
    }
}

/// Streaming reader: TLC's raw stdout (lines `<<"CASE", "json">>`) or plain ndjson.
struct CaseReader {
    lines: std::io::Lines<std::io::BufReader<Box<dyn std::io::Read>>>,
    /// everything that is not a case (TLC's own messages), for the driver
    log: Option<std::fs::File>,
}

impl CaseReader {
    fn open(path: &str, log: Option<&str>) -> anyhow::Result<CaseReader> {
        let r: Box<dyn std::io::Read> = if path == "-" { Box::new(std::io::stdin()) } else { Box::new(std::fs::File::open(path)?) };
        Ok(CaseReader {
            lines: std::io::BufReader::with_capacity(1 << 20, r).lines(),
            log: match log { Some(p) => Some(std::fs::File::create(p)?), None => None },
        })
    }

    /// Up to `n` further cases; empty at end of input.
    fn window(&mut self, n: usize) -> anyhow::Result<Vec<Case>> {
        let pre = "<<\"CASE\", \"";
        let mut v = Vec::new();
        while v.len() < n {
            let Some(line) = self.lines.next() else { break };
            let line = line?;
            let js: String = if line.starts_with(pre) && line.ends_with("\">>") {
                line[pre.len()..line.len() - 3].replace("\\\"", "\"").replace("\\\\", "\\")
            } else if line.starts_with('{') {
                line
            } else {
                if let Some(f) = &mut self.log {
                    use std::io::Write;
                    writeln!(f, "{}", line)?;
                }
                continue;
            };
            v.push(parse_case(serde_json::from_str(&js)?));
        }
        Ok(v)
    }
}

// ------------------------------------------------------------------------------------------
// rendering

/// The parameter list as this dialect writes it: `/` after the last positional-only parameter,
/// a bare `*` before the first keyword-only parameter when there is no `*args`.
fn render_params(sig: &[Param]) -> String {
    let mut parts: Vec<String> = Vec::new();
    let has_args = sig.iter().any(|p| p.kind == "args");
    let mut star_done = has_args;
    for (i, p) in sig.iter().enumerate() {
        match p.kind.as_str() {
            "args" => parts.push(format!("*{}", p.name)),
            "kwargs" => parts.push(format!("**{}", p.name)),
            k => {
                if k == "kwonly" && !star_done {
                    parts.push("*".to_owned());
                    star_done = true;
                }
                if p.default != 0 {
                    parts.push(format!("{}={}", p.name, p.default));
                } else {
                    parts.push(p.name.clone());
                }
                if k == "posonly" && (i + 1 == sig.len() || sig[i + 1].kind != "posonly") {
                    parts.push("/".to_owned());
                }
            }
        }
    }
    parts.join(", ")
}

fn render_def(name: &str, sig: &[Param]) -> String {
    let names: Vec<&str> = sig.iter().map(|p| p.name.as_str()).collect();
    // a list, so that the empty and the one-element case need no special syntax
    format!("def {}({}): return [{}]\n", name, render_params(sig), names.join(", "))
}

/// `*seq` is written as a list or as a tuple literal; which one depends only on the case (and on
/// the path, through `flip`), so that a replay renders exactly what the run rendered.
fn render_args(c: &Case, flip: usize) -> String {
    let variant = c.pos.len() + c.named.len() + c.star.as_ref().map_or(0, |s| s.len()) + flip;
    let mut parts: Vec<String> = c.pos.iter().map(|v| v.to_string()).collect();
    for (n, v) in &c.named {
        parts.push(format!("{}={}", n, v));
    }
    if let Some(s) = &c.star {
        let items: Vec<String> = s.iter().map(|v| v.to_string()).collect();
        if variant % 2 == 0 {
            parts.push(format!("*[{}]", items.join(", ")));
        } else {
            parts.push(format!("*({}{})", items.join(", "), if items.len() == 1 { "," } else { "" }));
        }
    }
    if let Some(m) = &c.starstar {
        let items: Vec<String> = m.iter().map(|(n, v)| format!("\"{}\": {}", n, v)).collect();
        parts.push(format!("**{{{}}}", items.join(", ")));
    }
    parts.join(", ")
}

// ------------------------------------------------------------------------------------------
// observation

#[derive(Clone, Debug, PartialEq)]
enum Obs {
    Ok(J),
    Err(String),
    Panic(String),
}

/// The callee's return value in the shape the specification prints: one entry per parameter,
/// ["i", n] | ["t", [n..]] | ["d", [k..], [v..]].
fn encode<'v>(v: Value<'v>) -> J {
    fn one<'v>(x: Value<'v>) -> J {
        if let Some(i) = x.unpack_i32() {
            return json!(["i", i]);
        }
        if let Some(t) = TupleRef::from_value(x) {
            let items: Vec<J> = t.content().iter().map(|e| match e.unpack_i32() {
                Some(i) => json!(i),
                None => json!(format!("?{}", e.to_repr())),
            }).collect();
            return json!(["t", items]);
        }
        if let Some(d) = DictRef::from_value(x) {
            let mut ks = Vec::new();
            let mut vs = Vec::new();
            for (k, v) in d.iter() {
                ks.push(match k.unpack_str() {
                    Some(s) => json!(s),
                    None => json!(format!("?{}", k.to_repr())),
                });
                vs.push(match v.unpack_i32() {
                    Some(i) => json!(i),
                    None => json!(format!("?{}", v.to_repr())),
                });
            }
            return json!(["d", ks, vs]);
        }
        json!(["?", x.to_repr()])
    }
    if let Some(l) = starlark::values::list::ListRef::from_value(v) {
        return J::Array(l.content().iter().map(|e| one(*e)).collect());
    }
    if let Some(t) = TupleRef::from_value(v) {
        return J::Array(t.content().iter().map(|e| one(*e)).collect());
    }
    json!(["?", v.to_repr()])
}

fn observe<'v>(f: impl FnOnce() -> starlark::Result<Value<'v>>) -> Obs {
    match util::catch(|| f().map(encode)) {
        Ok(Ok(j)) => Obs::Ok(j),
        Ok(Err(e)) => {
            // the message without source rendering (rendering dominates the cost of an error)
            let s = format!("{}", e.without_diagnostic());
            Obs::Err(s.lines().next().unwrap_or("").chars().take(160).collect())
        }
        Err(p) => Obs::Panic(p.chars().take(200).collect()),
    }
}

/// A function of the shape `def g(<one parameter>): return type(x) == "int"`: calls of a known such
/// callee are rewritten into a type test at the call site.  The observation is mapped back onto the
/// specification's: the bound value is an int exactly when the test says so.
fn observe_typeis<'v>(c: &Case, f: impl FnOnce() -> starlark::Result<Value<'v>>) -> Obs {
    match observe(|| f()) {
        Obs::Ok(j) => {
            let exp = c.exp_vals[0][0] == "i";
            if j == json!([["i", if exp { 1 } else { 0 }]]) { Obs::Ok(c.exp_vals.clone()) } else { Obs::Ok(json!({"typeis": j})) }
        }
        o => o,
    }
}

// ------------------------------------------------------------------------------------------
// native function with the same signature

fn native_collect<'v>(
    eval: &mut Evaluator<'v, '_, '_>,
    sig: &ParametersSpec<FrozenValue>,
    args: &Arguments<'v, '_>,
) -> starlark::Result<Value<'v>> {
    let n = sig.len();
    let mut slots: Vec<Option<Value<'v>>> = vec![None; n];
    sig.collect(args, &mut slots, eval.heap())?;
    let vals: Vec<Value<'v>> = slots.into_iter().map(|s| s.unwrap_or_else(Value::new_none)).collect();
    Ok(eval.heap().alloc(vals))
}

/// Same, through `ParametersSpec::parser` (the API generated native functions use).
fn native_parser<'v>(
    eval: &mut Evaluator<'v, '_, '_>,
    sig: &ParametersSpec<FrozenValue>,
    args: &Arguments<'v, '_>,
) -> starlark::Result<Value<'v>> {
    let n = sig.len();
    let vals: Vec<Value<'v>> = sig.parser(args, eval, |p, _eval| {
        let mut vals = Vec::with_capacity(n);
        for _ in 0..n {
            vals.push(p.next::<Value<'v>>()?);
        }
        Ok(vals)
    })?;
    Ok(eval.heap().alloc(vals))
}

fn build_spec(b: &GlobalsBuilder, name: &str, sig: &[Param]) -> ParametersSpec<FrozenValue> {
    let mk = |p: &Param| {
        if p.default != 0 {
            ParametersSpecParam::Defaulted(b.alloc(p.default as i32))
        } else {
            ParametersSpecParam::Required
        }
    };
    let sel = |k: &str| -> Vec<(&str, ParametersSpecParam<FrozenValue>)> {
        sig.iter().filter(|p| p.kind == k).map(|p| (p.name.as_str(), mk(p))).collect()
    };
    ParametersSpec::new_parts(
        name,
        sel("posonly"),
        sel("normal"),
        sig.iter().any(|p| p.kind == "args"),
        sel("kwonly"),
        sig.iter().any(|p| p.kind == "kwargs"),
    )
}

fn comps() -> NativeCallableComponents {
    NativeCallableComponents {
        speculative_exec_safe: false,
        rust_docstring: None,
        param_spec: NativeCallableParamSpec::for_arguments(),
        return_type: Ty::any(),
    }
}

fn build_globals(sig: &[Param]) -> (Globals, ParametersSpec<FrozenValue>) {
    let mut b = GlobalsBuilder::extended_by(&[LibraryExtension::StructType]);
    let s1 = build_spec(&b, "nf", sig);
    b.set_function("nf", comps(), s1, None, None, None, native_collect);
    let s2 = build_spec(&b, "np", sig);
    b.set_function("np", comps(), s2, None, None, None, native_parser);
    let s3 = build_spec(&b, "nf", sig);
    (b.build(), s3)
}

// ------------------------------------------------------------------------------------------
// one chunk: cases sharing a signature

struct Loader<'a>(&'a FrozenModule);
impl<'a> FileLoader for Loader<'a> {
    fn load(&self, _path: &str) -> starlark::Result<FrozenModule> {
        Ok(dupe::Dupe::dupe(self.0))
    }
}

fn parse(name: &str, src: String) -> starlark::Result<AstModule> {
    AstModule::parse(name, src, &Dialect::AllOptionsInternal)
}

const STYLES: [(&str, &str); 5] = [("direct", "f"), ("var", "L[0]"), ("struct", "S.f"), ("native", "nf"), ("native_parser", "np")];

struct Opts {
    top: usize,
    paths: Option<Vec<String>>,
}

type PathObs = Vec<(String, Obs)>;

fn want(o: &Opts, p: &str) -> bool {
    match &o.paths {
        None => true,
        Some(ps) => ps.iter().any(|x| x == p),
    }
}

fn host_args<'v>(heap: starlark::values::Heap<'v>, c: &Case) -> (Vec<Value<'v>>, Vec<(String, Value<'v>)>) {
    let pos: Vec<Value<'v>> = c.pos.iter().map(|v| heap.alloc(*v as i32)).collect();
    let named: Vec<(String, Value<'v>)> = c.named.iter().map(|(n, v)| (n.clone(), heap.alloc(*v as i32))).collect();
    (pos, named)
}

/// A call that repeats a name among its name=value arguments: only a host can issue it.
fn host_only(c: &Case) -> bool {
    c.named.iter().enumerate().any(|(i, (n, _))| c.named[..i].iter().any(|(m, _)| m == n))
}

/// Host-only cases: the def and the native function with the same signature, called through
/// `Evaluator::eval_function`, before and after the module is frozen.
fn run_chunk_host(sig: &[Param], cases: &[&Case], o: &Opts) -> Result<Vec<PathObs>, String> {
    let (globals, _) = build_globals(sig);
    let mut res: Vec<PathObs> = cases.iter().map(|_| Vec::new()).collect();
    let src_a = format!("{}lam = lambda {}: [{}]\n", render_def("f", sig), render_params(sig),
        sig.iter().map(|p| p.name.as_str()).collect::<Vec<_>>().join(", "));
    let fa: FrozenModule = Module::with_temp_heap(|module| -> Result<FrozenModule, String> {
        {
            let mut eval = Evaluator::new(&module);
            let ast = parse("a.star", src_a.clone()).map_err(|e| format!("parse A: {}", e))?;
            eval.eval_module(ast, &globals).map_err(|e| format!("eval A: {}", e))?;
            for (i, c) in cases.iter().enumerate() {
                let (pos, named) = host_args(module.heap(), c);
                let named: Vec<(&str, Value)> = named.iter().map(|(n, v)| (n.as_str(), *v)).collect();
                if want(o, "host") {
                    let f = module.get("f").ok_or("f missing")?;
                    res[i].push(("host".to_owned(), observe(|| eval.eval_function(f, &pos, &named))));
                    let f = module.get("lam").ok_or("lam missing")?;
                    res[i].push(("host_lambda".to_owned(), observe(|| eval.eval_function(f, &pos, &named))));
                }
                if want(o, "host_native") {
                    let nf = globals.iter().find(|(n, _)| *n == "nf").ok_or("nf missing")?.1.to_value();
                    res[i].push(("host_native".to_owned(), observe(|| eval.eval_function(nf, &pos, &named))));
                }
            }
        }
        module.freeze().map_err(|e| format!("freeze A: {:?}", e))
    })?;
    Module::with_temp_heap(|module| -> Result<(), String> {
        let mut eval = Evaluator::new(&module);
        for (i, c) in cases.iter().enumerate() {
            if want(o, "frozen_host") {
                let f = fa.get_owned("f").map_err(|e| format!("frozen f: {}", e))?.add_to_heap(module.heap());
                let (pos, named) = host_args(module.heap(), c);
                let named: Vec<(&str, Value)> = named.iter().map(|(n, v)| (n.as_str(), *v)).collect();
                res[i].push(("frozen_host".to_owned(), observe(|| eval.eval_function(f, &pos, &named))));
            }
        }
        Ok(())
    })?;
    Ok(res)
}

fn run_chunk(sig: &[Param], cases: &[&Case], o: &Opts) -> Result<Vec<PathObs>, String> {
    if cases.iter().all(|c| host_only(c)) {
        return run_chunk_host(sig, cases, o);
    }
    if cases.iter().any(|c| host_only(c)) {
        return Err("a chunk mixes host-only calls with calls that source code can make".to_owned());
    }
    let (globals, nspec) = build_globals(sig);
    let mut res: Vec<PathObs> = cases.iter().map(|_| Vec::new()).collect();

    // module A: the def, opaque holders, and one wrapper per case and style
    let mut src_a = render_def("f", sig);
    src_a.push_str("L = [f]\nS = struct(f = f)\ndef ident(x): return x\n");
    for (i, c) in cases.iter().enumerate() {
        for (k, (_, callee)) in STYLES.iter().enumerate() {
            src_a.push_str(&format!("def w{}_{}(): return {}({})\n", i, k, callee, render_args(c, k)));
        }
    }
    let one = sig.len() == 1;
    if one {
        src_a.push_str(&format!("def g1({}): return type({}) == \"int\"\n", render_params(sig), sig[0].name));
        for (i, c) in cases.iter().enumerate() {
            src_a.push_str(&format!("def tw{}(): return [1 if g1({}) else 0]\n", i, render_args(c, 0)));
        }
    }
    let host_ok = |c: &Case| c.star.is_none() && c.starstar.is_none();

    // module T: the call as a module-level statement, its own compilation unit each time
    // (a small module: evaluating a statement costs time proportional to the module's names)
    if want(o, "top") {
        let src_t = format!("{}def ident(x): return x\n", render_def("f", sig));
        Module::with_temp_heap(|module| -> Result<(), String> {
            let mut eval = Evaluator::new(&module);
            let ast = parse("t.star", src_t.clone()).map_err(|e| format!("parse T: {}", e))?;
            eval.eval_module(ast, &globals).map_err(|e| format!("eval T: {}", e))?;
            for (i, c) in cases.iter().enumerate().take(o.top) {
                let stmt = format!("f({})\n", render_args(c, 1));
                res[i].push(("top".to_owned(), observe(|| eval.eval_module(parse("t.star", stmt)?, &globals))));
                let stmt = format!("ident(f)({})\n", render_args(c, 0));
                res[i].push(("top_opaque".to_owned(), observe(|| eval.eval_module(parse("t.star", stmt)?, &globals))));
            }
            Ok(())
        })?;
    }

    let fa: FrozenModule = Module::with_temp_heap(|module| -> Result<FrozenModule, String> {
        {
            let mut eval = Evaluator::new(&module);
            let ast = parse("a.star", src_a.clone()).map_err(|e| format!("parse A: {}", e))?;
            eval.eval_module(ast, &globals).map_err(|e| format!("eval A: {}", e))?;
            for (i, c) in cases.iter().enumerate() {
                for (k, (style, _)) in STYLES.iter().enumerate() {
                    if !want(o, style) {
                        continue;
                    }
                    let w = module.get(&format!("w{}_{}", i, k)).ok_or("wrapper missing")?;
                    res[i].push((style.to_string(), observe(|| eval.eval_function(w, &[], &[]))));
                }
                if one && want(o, "typeis") {
                    let w = module.get(&format!("tw{}", i)).ok_or("tw missing")?;
                    res[i].push(("typeis".to_owned(), observe_typeis(c, || eval.eval_function(w, &[], &[]))));
                }
                if host_ok(c) {
                    let (pos, named) = host_args(module.heap(), c);
                    let named: Vec<(&str, Value)> = named.iter().map(|(n, v)| (n.as_str(), *v)).collect();
                    if want(o, "host") {
                        let f = module.get("f").ok_or("f missing")?;
                        res[i].push(("host".to_owned(), observe(|| eval.eval_function(f, &pos, &named))));
                    }
                    if want(o, "host_native") {
                        let nf = globals.iter().find(|(n, _)| *n == "nf").ok_or("nf missing")?.1.to_value();
                        res[i].push(("host_native".to_owned(), observe(|| eval.eval_function(nf, &pos, &named))));
                    }
                    // the predicate form of the same rules
                    if want(o, "can_fill") {
                        let f = module.get("f").ok_or("f missing")?;
                        let names: Vec<&str> = c.named.iter().map(|(n, _)| n.as_str()).collect();
                        let r = util::catch(|| f.parameters_spec().map(|s| s.can_fill_with_args(c.pos.len(), &names)));
                        let obs = match r {
                            Ok(Some(true)) => Obs::Ok(c.exp_vals.clone()),
                            Ok(Some(false)) => Obs::Err("can_fill_with_args = false".to_owned()),
                            Ok(None) => Obs::Err("no parameters_spec".to_owned()),
                            Err(p) => Obs::Panic(p),
                        };
                        res[i].push(("can_fill".to_owned(), obs));
                        let r = util::catch(|| nspec.can_fill_with_args(c.pos.len(), &names));
                        let obs = match r {
                            Ok(true) => Obs::Ok(c.exp_vals.clone()),
                            Ok(false) => Obs::Err("can_fill_with_args = false".to_owned()),
                            Err(p) => Obs::Panic(p),
                        };
                        res[i].push(("can_fill_native".to_owned(), obs));
                    }
                }
            }
        }
        module.freeze().map_err(|e| format!("freeze A: {:?}", e))
    })?;

    // frozen A: the same wrappers, now compiled against a frozen, known callee
    Module::with_temp_heap(|module| -> Result<(), String> {
        let mut eval = Evaluator::new(&module);
        for (i, c) in cases.iter().enumerate() {
            for (k, (style, _)) in STYLES.iter().enumerate() {
                let path = format!("frozen_{}", style);
                if !want(o, &path) {
                    continue;
                }
                let w = fa.get_owned(&format!("w{}_{}", i, k)).map_err(|e| format!("frozen wrapper: {}", e))?.add_to_heap(module.heap());
                res[i].push((path, observe(|| eval.eval_function(w, &[], &[]))));
            }
            if one && want(o, "frozen_typeis") {
                let w = fa.get_owned(&format!("tw{}", i)).map_err(|e| format!("frozen tw: {}", e))?.add_to_heap(module.heap());
                res[i].push(("frozen_typeis".to_owned(), observe_typeis(c, || eval.eval_function(w, &[], &[]))));
            }
            if host_ok(c) && want(o, "frozen_host") {
                let f = fa.get_owned("f").map_err(|e| format!("frozen f: {}", e))?.add_to_heap(module.heap());
                let (pos, named) = host_args(module.heap(), c);
                let named: Vec<(&str, Value)> = named.iter().map(|(n, v)| (n.as_str(), *v)).collect();
                res[i].push(("frozen_host".to_owned(), observe(|| eval.eval_function(f, &pos, &named))));
            }
        }
        Ok(())
    })?;

    // module B loads f from frozen A
    if want(o, "load") || want(o, "load_top") || want(o, "load_frozen") {
        let mut src_b = String::from(if one { "load(\"a.star\", \"f\", \"S\", \"g1\")\n" } else { "load(\"a.star\", \"f\", \"S\")\n" });
        if one {
            for (i, c) in cases.iter().enumerate() {
                src_b.push_str(&format!("def ut{}(): return [1 if g1({}) else 0]\n", i, render_args(c, 1)));
            }
        }
        for (i, c) in cases.iter().enumerate() {
            src_b.push_str(&format!("def u{}(): return f({})\n", i, render_args(c, 1)));
            src_b.push_str(&format!("def us{}(): return S.f({})\n", i, render_args(c, 0)));
        }
        let loader = Loader(&fa);
        let fb: FrozenModule = Module::with_temp_heap(|module| -> Result<FrozenModule, String> {
            {
                let mut eval = Evaluator::new(&module);
                eval.set_loader(&loader);
                let ast = parse("b.star", src_b.clone()).map_err(|e| format!("parse B: {}", e))?;
                eval.eval_module(ast, &globals).map_err(|e| format!("eval B: {}", e))?;
                for i in 0..cases.len() {
                    if want(o, "load") {
                        let w = module.get(&format!("u{}", i)).ok_or("u missing")?;
                        res[i].push(("load".to_owned(), observe(|| eval.eval_function(w, &[], &[]))));
                        let w = module.get(&format!("us{}", i)).ok_or("us missing")?;
                        res[i].push(("load_struct".to_owned(), observe(|| eval.eval_function(w, &[], &[]))));
                        if one {
                            let w = module.get(&format!("ut{}", i)).ok_or("ut missing")?;
                            res[i].push(("load_typeis".to_owned(), observe_typeis(cases[i], || eval.eval_function(w, &[], &[]))));
                        }
                    }
                }
            }
            module.freeze().map_err(|e| format!("freeze B: {:?}", e))
        })?;
        if want(o, "load_top") {
            Module::with_temp_heap(|module| -> Result<(), String> {
                let mut eval = Evaluator::new(&module);
                eval.set_loader(&loader);
                let ast = parse("bt.star", "load(\"a.star\", \"f\")\n".to_owned()).map_err(|e| format!("parse BT: {}", e))?;
                eval.eval_module(ast, &globals).map_err(|e| format!("eval BT: {}", e))?;
                for (i, c) in cases.iter().enumerate().take(o.top) {
                    let stmt = format!("f({})\n", render_args(c, 0));
                    res[i].push(("load_top".to_owned(), observe(|| eval.eval_module(parse("t.star", stmt)?, &globals))));
                }
                Ok(())
            })?;
        }
        if want(o, "load_frozen") {
            Module::with_temp_heap(|module| -> Result<(), String> {
                let mut eval = Evaluator::new(&module);
                for i in 0..cases.len() {
                    let w = fb.get_owned(&format!("u{}", i)).map_err(|e| format!("frozen u: {}", e))?.add_to_heap(module.heap());
                    res[i].push(("load_frozen".to_owned(), observe(|| eval.eval_function(w, &[], &[]))));
                }
                Ok(())
            })?;
        }
    }
    Ok(res)
}

// ------------------------------------------------------------------------------------------

#[derive(Default)]
struct Tally {
    cases: usize,
    host_only: usize,
    evals: usize,
    signatures: usize,
    chunks: usize,
    by_path: BTreeMap<String, [usize; 2]>, // path -> [ok, err] as expected
    by_class: BTreeMap<String, usize>,     // the specification's outcome class -> cases
    features: BTreeMap<String, usize>,     // well-formed calls using a mechanism -> cases
    nontrivial: usize,
    disagreements: Vec<J>,
    dis_count: BTreeMap<String, usize>,
    chunk_errors: Vec<String>,
    observations: Vec<J>,
    samples: Vec<J>,
}

fn compare(c: &Case, obs: &Obs) -> Option<(&'static str, &'static str)> {
    match (c.exp_ok, obs) {
        (true, Obs::Ok(v)) => if *v == c.exp_vals { None } else { Some(("ok", "wrong_value")) },
        (true, Obs::Err(_)) => Some(("ok", "error")),
        (false, Obs::Ok(_)) => Some(("error", "ok")),
        (false, Obs::Err(_)) => None,
        (true, Obs::Panic(_)) => Some(("ok", "panic")),
        (false, Obs::Panic(_)) => Some(("error", "panic")),
    }
}

fn obs_json(o: &Obs) -> J {
    match o {
        Obs::Ok(v) => json!({"ok": v}),
        Obs::Err(e) => json!({"err": e}),
        Obs::Panic(p) => json!({"panic": p}),
    }
}

fn source_of(c: &Case) -> String {
    format!("{}f({})", render_def("f", &c.sig), render_args(c, 0))
}

/// Tally what the specification says about the case (counted for vacuity guards and evidence).
fn tally_spec(t: &mut Tally, c: &Case) {
    t.cases += 1;
    if host_only(c) {
        t.host_only += 1;
    }
    let class = if c.exp_ok { "ok".to_owned() } else { c.raw["err"].as_str().unwrap_or("?").to_owned() };
    *t.by_class.entry(class).or_insert(0) += 1;
    if c.exp_ok {
        let mut any = false;
        let mut f = |name: &str, on: bool, t: &mut Tally| {
            if on {
                *t.features.entry(name.to_owned()).or_insert(0) += 1;
                any = true;
            }
        };
        f("named", !c.named.is_empty(), t);
        f("star", c.star.as_ref().map_or(false, |s| !s.is_empty()), t);
        f("starstar", c.starstar.as_ref().map_or(false, |s| !s.is_empty()), t);
        f("default_used", c.raw["dflt"].as_i64().unwrap_or(0) > 0, t);
        let vals = c.exp_vals.as_array().cloned().unwrap_or_default();
        f("args_overflow", vals.iter().any(|v| v[0] == "t" && !v[1].as_array().unwrap().is_empty()), t);
        f("kwargs_collected", vals.iter().any(|v| v[0] == "d" && !v[1].as_array().unwrap().is_empty()), t);
        f("posonly_name_to_kwargs", vals.iter().any(|v| v[0] == "d" && v[1].as_array().unwrap().iter().any(|k|
            c.sig.iter().any(|p| p.kind != "normal" && p.kind != "kwonly" && Some(p.name.as_str()) == k.as_str()))), t);
        if any {
            t.nontrivial += 1;
        }
    } else {
        t.nontrivial += 1;
    }
}

fn process_chunk(t: &mut Tally, ch: &[&Case], o: &Opts, verbose: bool) {
    t.chunks += 1;
    let sig = &ch[0].sig;
    let r = match util::catch(|| run_chunk(sig, ch, o)) {
        Ok(r) => r,
        Err(p) => Err(format!("panic outside a call: {}", p)),
    };
    match r {
        Err(e) => {
            // the modules could not even be built: an observation about every case in the chunk
            t.chunk_errors.push(e.clone());
            for c in ch {
                tally_spec(t, c);
                let exp = if c.exp_ok { "ok" } else { "error" };
                let n = t.dis_count.entry(format!("setup|{}|setup_failed", exp)).or_insert(0);
                *n += 1;
                if *n <= 5 {
                    t.disagreements.push(json!({"path": "setup", "expected": exp, "got": "setup_failed",
                        "case": c.raw, "observed": {"err": e}, "source": source_of(c)}));
                }
            }
        }
        Ok(res) => {
            for (c, po) in ch.iter().zip(res.iter()) {
                tally_spec(t, c);
                for (path, obs) in po {
                    t.evals += 1;
                    let e = t.by_path.entry(path.clone()).or_insert([0, 0]);
                    e[if c.exp_ok { 0 } else { 1 }] += 1;
                    if let Some((exp, got)) = compare(c, obs) {
                        let n = t.dis_count.entry(format!("{}|{}|{}", path, exp, got)).or_insert(0);
                        *n += 1;
                        if *n <= 5 {
                            t.disagreements.push(json!({"path": path, "expected": exp, "got": got,
                                "case": c.raw, "observed": obs_json(obs), "source": source_of(c)}));
                        }
                    }
                }
                let want_sample = t.samples.len() < 3 && c.exp_ok && !c.named.is_empty() && c.star.is_some() && t.cases % 97 == 0;
                if verbose || want_sample {
                    let m: serde_json::Map<String, J> = po.iter().map(|(p, o)| (p.clone(), obs_json(o))).collect();
                    let row = json!({"case": c.raw, "source": source_of(c), "obs": m});
                    if verbose {
                        t.observations.push(row);
                    } else {
                        t.samples.push(row);
                    }
                }
            }
        }
    }
}

fn merge(t: &mut Tally, l: Tally) {
    t.cases += l.cases;
    t.host_only += l.host_only;
    t.evals += l.evals;
    t.chunks += l.chunks;
    t.nontrivial += l.nontrivial;
    for (k, v) in l.by_path {
        let e = t.by_path.entry(k).or_insert([0, 0]);
        e[0] += v[0];
        e[1] += v[1];
    }
    for (k, v) in l.by_class {
        *t.by_class.entry(k).or_insert(0) += v;
    }
    for (k, v) in l.features {
        *t.features.entry(k).or_insert(0) += v;
    }
    for (k, v) in l.dis_count {
        *t.dis_count.entry(k).or_insert(0) += v;
    }
    t.disagreements.extend(l.disagreements);
    t.chunk_errors.extend(l.chunk_errors);
    t.observations.extend(l.observations);
    t.samples.extend(l.samples);
}

fn cmd_run(args: &[String]) -> anyhow::Result<()> {
    let out_path = &args[1];
    let opts = &args[2..];
    let mut reader = CaseReader::open(&args[0], util::opt(opts, "--log"))?;
    // threads share one address space and the evaluator's heaps are mmap-heavy: processes scale,
    // threads do not (measured) -- the driver runs one process per slice instead
    let threads = util::opt_u64(opts, "--threads", 1) as usize;
    let chunk = util::opt_u64(opts, "--chunk", 400) as usize;
    let window = util::opt_u64(opts, "--window", 20000) as usize;
    let o = Opts {
        top: util::opt_u64(opts, "--top", 1 << 30) as usize,
        paths: util::opt(opts, "--paths").map(|s| s.split(',').map(|x| x.to_owned()).collect()),
    };
    let verbose = util::opt(opts, "--verbose").is_some();
    let mut total = Tally::default();
    let mut seen_sigs: std::collections::HashSet<String> = std::collections::HashSet::new();
    loop {
        let cases = reader.window(window)?;
        if cases.is_empty() {
            break;
        }
        // group by signature (TLC prints a signature's calls consecutively), then cut into chunks
        let mut groups: HashMap<&str, Vec<&Case>> = HashMap::new();
        let mut order: Vec<&str> = Vec::new();
        for c in &cases {
            let e = groups.entry(c.sig_key.as_str()).or_insert_with(|| {
                order.push(c.sig_key.as_str());
                Vec::new()
            });
            e.push(c);
        }
        let mut chunks: Vec<&[&Case]> = Vec::new();
        for k in &order {
            seen_sigs.insert((*k).to_owned());
            for ch in groups[k].chunks(chunk) {
                chunks.push(ch);
            }
        }
        if threads <= 1 {
            for ch in &chunks {
                process_chunk(&mut total, ch, &o, verbose);
            }
        } else {
            let next = AtomicUsize::new(0);
            let shared = Mutex::new(Tally::default());
            std::thread::scope(|s| {
                for _ in 0..threads {
                    s.spawn(|| {
                        let mut local = Tally::default();
                        loop {
                            let i = next.fetch_add(1, Ordering::SeqCst);
                            if i >= chunks.len() {
                                break;
                            }
                            process_chunk(&mut local, chunks[i], &o, verbose);
                        }
                        merge(&mut shared.lock().unwrap(), local);
                    });
                }
            });
            merge(&mut total, shared.into_inner().unwrap());
        }
    }
    let t = total;
    let mut dis = t.disagreements;
    dis.truncate(400);
    let out = json!({
        "cases": t.cases, "host_only": t.host_only, "evaluations": t.evals, "signatures": seen_sigs.len(), "chunks": t.chunks,
        "nontrivial": t.nontrivial,
        "by_class": t.by_class, "features": t.features,
        "by_path": t.by_path.iter().map(|(k, v)| (k.clone(), json!({"expected_ok": v[0], "expected_error": v[1]}))).collect::<serde_json::Map<_, _>>(),
        "disagreement_counts": t.dis_count,
        "disagreements": dis,
        "chunk_errors": t.chunk_errors.iter().take(5).collect::<Vec<_>>(),
        "observations": t.observations,
        "samples": t.samples,
    });
    std::fs::write(out_path, serde_json::to_string(&out)?)?;
    Ok(())
}

// ------------------------------------------------------------------------------------------
// static rules: parameter lists and argument lists as token sequences

fn cmd_static(args: &[String]) -> anyhow::Result<()> {
    let rows = util::read_ndjson(&args[0])?;
    let mut out = Vec::new();
    let globals = Globals::standard();
    for r in rows {
        let toks: Vec<&str> = r["toks"].as_array().unwrap().iter().map(|x| x.as_str().unwrap()).collect();
        let kind = r["kind"].as_str().unwrap();
        let names = ["a", "b", "c", "d", "e", "f"];
        let src = if kind == "sigtok" {
            let mut parts = Vec::new();
            for (i, t) in toks.iter().enumerate() {
                parts.push(match *t {
                    "p" => names[i].to_owned(),
                    "d" => format!("{}={}", names[i], 101 + i),
                    "/" => "/".to_owned(),
                    "*" => "*".to_owned(),
                    "*a" => format!("*{}", names[i]),
                    _ => format!("**{}", names[i]),
                });
            }
            format!("def f({}): pass\n", parts.join(", "))
        } else {
            let mut parts = Vec::new();
            for (i, t) in toks.iter().enumerate() {
                parts.push(match *t {
                    "v" => format!("{}", i + 1),
                    "*s" => "*[]".to_owned(),
                    "**m" => "**{}".to_owned(),
                    n => format!("{}={}", if n == "n1" { "a" } else { "b" }, 11 + i),
                });
            }
            // never executed: only whether the module is accepted matters
            format!("def f(*a, **k): pass\ndef g(): return f({})\n", parts.join(", "))
        };
        let obs = util::catch(|| -> Result<(), String> {
            let ast = parse("s.star", src.clone()).map_err(|e| format!("{}", e))?;
            Module::with_temp_heap(|module| {
                let mut eval = Evaluator::new(&module);
                eval.eval_module(ast, &globals).map(|_| ()).map_err(|e| format!("{}", e))
            })
        });
        let (got, detail) = match obs {
            Ok(Ok(())) => ("ok", String::new()),
            Ok(Err(e)) => ("error", e.lines().next().unwrap_or("").chars().take(160).collect()),
            Err(p) => ("panic", p),
        };
        out.push(json!({"kind": kind, "toks": toks, "expected": r["ok"], "got": got, "detail": detail, "source": src}));
    }
    std::fs::write(&args[1], serde_json::to_string(&out)?)?;
    Ok(())
}

fn main() -> ExitCode {
    let args: Vec<String> = std::env::args().collect();
    std::panic::set_hook(Box::new(|info| {
        util::LAST_PANIC.with(|p| *p.borrow_mut() = Some(format!("{}", info)));
    }));
    let r = match args.get(1).map(|s| s.as_str()) {
        Some("run") if args.len() >= 4 => cmd_run(&args[2..]),
        Some("static") if args.len() >= 4 => cmd_static(&args[2..]),
        _ => {
            eprintln!("usage: vh_c08 run <cases> <out.json> [--threads N] [--chunk N] [--top N] [--paths a,b]\n       vh_c08 static <toks.ndjson> <out.json>");
            return ExitCode::from(2);
        }
    };
    match r {
        Ok(()) => ExitCode::SUCCESS,
        Err(e) => {
            eprintln!("vh_c08: {:#}", e);
            ExitCode::from(2)
        }
    }
}

//! vh_c09: C09 -- equality, hashing and ordering are coherent.
//!
//! `vh_c09 replay <universe.json> <out.ndjson> [--modes ff,fz,zf]`
//!
//! universe.json (all of it printed by TLC from spec/Gen_Coherence.tla, assembled by the driver):
//!   { "vals":  [ {"i": 1, "reps": [["lit", "<source expr>"], ...]}, ... ],
//!     "sorts": [ [i, j, k, ...], ... ] }          -- lists of value indices to sort
//! Every construction path (source expression) is evaluated by the real interpreter, once in a
//! live module ("fresh") and once in a module that is then frozen and `load`ed ("frozen").
//! For every ordered pair of construction paths the observations
//!     a == b, a != b, a < b, a <= b, a > b, {a: 1}.get(b), b in {a: 1}, len of {a: 1} after d[b] = 2,
//!     [a].index(b), b in [a], (a,) == (b,), {(a,): 1}.get((b,)), the dict display {a: 1, b: 2}
//!     (an error iff the keys are equal)                                    (through Starlark `def`s)
//!     Value::equals, Value::compare, get_hashed() equality                 (through the Rust API)
//! are written out; the driver compares them with what the specification says about the two
//! ABSTRACT values. Nothing is judged here.
#![allow(clippy::all)]
#![allow(dead_code)]

#[path = "../util.rs"]
mod util;

use std::collections::HashMap;
use std::process::ExitCode;

use serde_json::json;
use serde_json::Value as J;
use starlark::environment::FrozenModule;
use starlark::environment::Globals;
use starlark::environment::Module;
use starlark::eval::Evaluator;
use starlark::eval::ReturnFileLoader;
use starlark::syntax::AstModule;
use starlark::syntax::Dialect;
use starlark::values::list::ListRef;
use starlark::values::Value;

/// Nominal types: declared once, in the frozen module; the live module LOADS them, so that a value
/// built in the live module and a value frozen with the other module are instances of the same types
/// (two evaluations of these declarations would be different types).
const TYPES: &str = r#"
RecA = record(a = int, b = int)
RecB = record(a = int, b = int)
EnA = enum("x", "y")
EnB = enum("x", "y")
"#;
const LOAD_TYPES: &str = "load(\"frozen.star\", \"RecA\", \"RecB\", \"EnA\", \"EnB\")\n";

const PRELUDE: &str = r#"
def pm(x):
    return x + 1 - 1
def fm(x):
    return x * 1.0
def cat(x, y):
    return x + y
def mid(s):
    return s[1:-1]
def nothing():
    return None
def o_eq(a, b):
    return a == b
def o_ne(a, b):
    return a != b
def o_lt(a, b):
    return a < b
def o_le(a, b):
    return a <= b
def o_gt(a, b):
    return a > b
def o_get(a, b):
    return {a: 1}.get(b)
def o_in(a, b):
    return b in {a: 1}
def o_len(a, b):
    d = {a: 1}
    d[b] = 2
    return len(d)
def o_dup(a, b):
    return len({a: 1, b: 2})
def o_idx(a, b):
    return [a].index(b)
def o_lin(a, b):
    return b in [a]
def o_teq(a, b):
    return (a,) == (b,)
def o_tget(a, b):
    return {(a,): 1}.get((b,))
def o_sorted(xs):
    return sorted(xs)
"#;

const OBS: &[&str] = &[
    "o_eq", "o_ne", "o_lt", "o_le", "o_gt", "o_get", "o_in", "o_len", "o_idx", "o_lin", "o_teq", "o_tget", "o_dup",
];

fn err_kind(msg: &str) -> String {
    let m = msg.to_lowercase();
    if m.contains("not hashable") {
        "unhashable".to_owned()
    } else if m.contains("key repeated") {
        "dup".to_owned()
    } else if m.contains("not found in") {
        "notfound".to_owned()
    } else if m.contains("not supported for types") || m.contains("not supported") && m.contains("compare") {
        "type".to_owned()
    } else {
        let flat = msg.replace('\n', " ");
        let n = flat.chars().count();
        format!("error:{}", flat.chars().skip(n.saturating_sub(200)).collect::<String>())
    }
}

fn show(v: Value) -> String {
    match v.unpack_str() {
        Some(s) => s.to_owned(),
        None => v.to_str(),
    }
}

struct Rep {
    val: usize,  // abstract value index (1-based, as TLC numbers them)
    path: String,
    src: String,
}

fn parse(src: &str) -> Result<AstModule, String> {
    AstModule::parse("c09.star", src.to_owned(), &Dialect::Standard).map_err(|e| format!("{}", e))
}

/// Module F: prelude + R = [every construction path], frozen.
fn build_frozen(reps: &[Rep], ok: &[bool], globals: &Globals) -> Result<FrozenModule, String> {
    let mut src = String::from(PRELUDE);
    src.push_str(TYPES);
    src.push_str("R = [\n");
    for (r, good) in reps.iter().zip(ok) {
        if *good {
            src.push_str("    ");
            src.push_str(&r.src);
            src.push_str(",\n");
        } else {
            src.push_str("    None,\n");
        }
    }
    src.push_str("]\n");
    let ast = parse(&src)?;
    Module::with_temp_heap(|module| {
        {
            let mut eval = Evaluator::new(&module);
            eval.eval_module(ast, globals).map_err(|e| format!("{}", e))?;
        }
        module.freeze().map_err(|e| format!("{:?}", e))
    })
}

fn replay(universe: &str, out_path: &str, modes: &[String]) -> anyhow::Result<()> {
    let u: J = serde_json::from_str(&std::fs::read_to_string(universe)?)?;
    let mut out = util::NdWriter::create(out_path)?;
    let globals = {
        use starlark::environment::GlobalsBuilder;
        use starlark::environment::LibraryExtension as L;
        GlobalsBuilder::extended_by(&[L::StructType, L::SetType, L::RecordType, L::EnumType]).build()
    };
    let mut reps: Vec<Rep> = Vec::new();
    for v in u["vals"].as_array().unwrap() {
        let i = v["i"].as_u64().unwrap() as usize;
        for r in v["reps"].as_array().unwrap() {
            reps.push(Rep {
                val: i,
                path: r[0].as_str().unwrap().to_owned(),
                src: r[1].as_str().unwrap().to_owned(),
            });
        }
    }
    let pre_ast = parse(&format!("{}{}", PRELUDE, TYPES)).map_err(|e| anyhow::anyhow!("prelude: {}", e))?;
    let live_ast = parse(&format!("{}{}", LOAD_TYPES, PRELUDE)).map_err(|e| anyhow::anyhow!("live prelude: {}", e))?;

    // Pass 1: which construction paths evaluate at all (so the frozen module can be built).
    let mut ok = vec![false; reps.len()];
    Module::with_temp_heap(|module| -> anyhow::Result<()> {
        let mut eval = Evaluator::new(&module);
        eval.eval_module(pre_ast.clone(), &globals)
            .map_err(|e| anyhow::anyhow!("prelude: {}", e))?;
        for (n, r) in reps.iter().enumerate() {
            let res = util::catch(|| -> Result<(), String> {
                let ast = parse(&r.src)?;
                eval.eval_module(ast, &globals).map_err(|e| format!("{}", e))?;
                Ok(())
            });
            ok[n] = matches!(res, Ok(Ok(())));
        }
        Ok(())
    })?;
    let frozen = match util::catch(|| build_frozen(&reps, &ok, &globals)) {
        Ok(Ok(f)) => Some(f),
        Ok(Err(e)) => {
            out.write(&json!({"k": "frozen_error", "msg": e}))?;
            None
        }
        Err(p) => {
            out.write(&json!({"k": "frozen_error", "msg": format!("panic: {}", p)}))?;
            None
        }
    };

    Module::with_temp_heap(|module| -> anyhow::Result<()> {
        let mut mods: HashMap<&str, &FrozenModule> = HashMap::new();
        if let Some(f) = &frozen {
            mods.insert("frozen.star", f);
        }
        let loader = ReturnFileLoader { modules: &mods };
        let mut eval = Evaluator::new(&module);
        eval.set_loader(&loader);
        eval.eval_module(if frozen.is_some() { live_ast.clone() } else { pre_ast.clone() }, &globals)
            .map_err(|e| anyhow::anyhow!("prelude: {}", e))?;
        // fresh values: each construction path is bound to a module global, so that the value stays
        // rooted while later statements run (a collection may happen at any top-level statement);
        // the values are fetched only after the last statement has been evaluated.
        let mut fresh_ok: Vec<Result<(), String>> = Vec::new();
        for (n, r) in reps.iter().enumerate() {
            let res = util::catch(|| -> Result<(), String> {
                let ast = parse(&format!("F_{} = {}", n, r.src))?;
                eval.eval_module(ast, &globals).map_err(|e| format!("{}", e))?;
                Ok(())
            });
            fresh_ok.push(match res {
                Ok(Ok(())) => Ok(()),
                Ok(Err(e)) => Err(e),
                Err(p) => Err(format!("panic: {}", p)),
            });
        }
        // frozen, loaded values
        let mut frz: Vec<Option<Value>> = vec![None; reps.len()];
        if frozen.is_some() {
            let ast = parse("load(\"frozen.star\", FR = \"R\")\nFR").map_err(|e| anyhow::anyhow!(e))?;
            match eval.eval_module(ast, &globals) {
                Ok(v) => {
                    if let Some(l) = ListRef::from_value(v) {
                        for (n, x) in l.content().iter().enumerate() {
                            if ok[n] {
                                frz[n] = Some(*x);
                            }
                        }
                    }
                }
                Err(e) => out.write(&json!({"k": "frozen_error", "msg": format!("{}", e)}))?,
            }
        }
        let mut fresh: Vec<Option<Value>> = Vec::new();
        for (n, r) in reps.iter().enumerate() {
            match (&fresh_ok[n], module.get(&format!("F_{}", n))) {
                (Ok(()), Some(v)) => {
                    out.write(&json!({"k": "rep", "r": n, "val": r.val, "path": r.path, "src": r.src,
                                      "ty": v.get_type(), "repr": v.to_repr(), "ok": true}))?;
                    fresh.push(Some(v));
                }
                (e, _) => {
                    out.write(&json!({"k": "rep", "r": n, "val": r.val, "path": r.path, "src": r.src, "ok": false,
                                      "msg": match e { Err(m) => m.clone(), Ok(()) => "global missing".to_owned() }}))?;
                    fresh.push(None);
                }
            }
        }
        let fns: Vec<Value> = OBS.iter().map(|f| module.get(f).unwrap()).collect();
        for mode in modes {
            let (left, right): (&Vec<Option<Value>>, &Vec<Option<Value>>) = match mode.as_str() {
                "ff" => (&fresh, &fresh),
                "fz" => (&fresh, &frz),
                "zf" => (&frz, &fresh),
                "zz" => (&frz, &frz),
                _ => continue,
            };
            for (ia, a) in left.iter().enumerate() {
                let Some(a) = a else { continue };
                for (ib, b) in right.iter().enumerate() {
                    let Some(b) = b else { continue };
                    let mut row: Vec<J> = Vec::with_capacity(20);
                    row.push(json!(mode));
                    row.push(json!(ia));
                    row.push(json!(ib));
                    for f in &fns {
                        let r = util::catch(|| eval.eval_function(*f, &[*a, *b], &[]));
                        row.push(json!(match r {
                            Ok(Ok(v)) => show(v),
                            Ok(Err(e)) => err_kind(&format!("{}", e)),
                            Err(p) => format!("panic:{}", p.chars().take(120).collect::<String>()),
                        }));
                    }
                    // the Rust API
                    row.push(json!(match util::catch(|| a.equals(*b)) {
                        Ok(Ok(x)) => if x { "True".to_owned() } else { "False".to_owned() },
                        Ok(Err(e)) => err_kind(&format!("{}", e)),
                        Err(_) => "panic".to_owned(),
                    }));
                    row.push(json!(match util::catch(|| a.compare(*b)) {
                        Ok(Ok(o)) => (o as i32).to_string(),
                        Ok(Err(e)) => err_kind(&format!("{}", e)),
                        Err(_) => "panic".to_owned(),
                    }));
                    row.push(json!(match util::catch(|| (a.get_hashed(), b.get_hashed())) {
                        Ok((Ok(x), Ok(y))) => if x.hash() == y.hash() { "same".to_owned() } else { "differ".to_owned() },
                        Ok(_) => "unhashable".to_owned(),
                        Err(_) => "panic".to_owned(),
                    }));
                    out.write(&J::Array(row))?;
                }
            }
        }
        Ok(())
    })?;

    // sorted(): lists of abstract value indices, each element written with its first construction
    // path. A panic inside sorted() unwinds through the evaluator and leaves frames on its call
    // stack, so the lists run in their own module, and a fresh one is started after every panic.
    let first_src: HashMap<usize, String> = {
        let mut m = HashMap::new();
        for r in reps.iter() {
            m.entry(r.val).or_insert_with(|| r.src.clone());
        }
        m
    };
    let sorts: Vec<Vec<usize>> = u["sorts"]
        .as_array()
        .unwrap()
        .iter()
        .map(|l| l.as_array().unwrap().iter().map(|x| x.as_u64().unwrap() as usize).collect())
        .collect();
    let mut next = 0usize;
    while next < sorts.len() {
        let start = next;
        Module::with_temp_heap(|module| -> anyhow::Result<()> {
            let mut eval = Evaluator::new(&module);
            eval.eval_module(pre_ast.clone(), &globals)
                .map_err(|e| anyhow::anyhow!("prelude: {}", e))?;
            let f_sorted = module.get("o_sorted").unwrap();
            let heap = module.heap();
            // bind every value that occurs in a list to a global first (rooted), fetch afterwards;
            // from here on only eval_function runs (no top-level statement, hence no collection)
            let mut used_vals: Vec<usize> = sorts.iter().flatten().copied().collect();
            used_vals.sort();
            used_vals.dedup();
            for i in &used_vals {
                if let Some(src) = first_src.get(i) {
                    let _ = util::catch(|| {
                        parse(&format!("S_{} = {}", i, src))
                            .ok()
                            .and_then(|ast| eval.eval_module(ast, &globals).ok())
                    });
                }
            }
            let cache: HashMap<usize, Option<Value>> =
                used_vals.iter().map(|i| (*i, module.get(&format!("S_{}", i)))).collect();
            while next < sorts.len() {
                let sn = next;
                next += 1;
                let idx = &sorts[sn];
                let mut vals: Vec<Value> = Vec::new();
                let mut bad = false;
                for i in idx {
                    match cache.get(i).copied().flatten() {
                        Some(v) => vals.push(v),
                        None => bad = true,
                    }
                }
                if bad {
                    out.write(&json!({"k": "sort", "n": sn, "res": "error:construct"}))?;
                    continue;
                }
                let r = util::catch(|| -> Result<Vec<usize>, String> {
                    let input = heap.alloc(vals.clone());
                    let res = eval.eval_function(f_sorted, &[input], &[]).map_err(|e| err_kind(&format!("{}", e)))?;
                    let l = ListRef::from_value(res).ok_or_else(|| "error:not a list".to_owned())?;
                    let mut used = vec![false; vals.len()];
                    let mut pos = Vec::new();
                    for x in l.content() {
                        let mut found = None;
                        for (p, y) in vals.iter().enumerate() {
                            // identity: heap values by address, inline ints / bools by their bits
                            if !used[p] && x.ptr_eq(*y) {
                                found = Some(p);
                                break;
                            }
                        }
                        match found {
                            Some(p) => {
                                used[p] = true;
                                pos.push(p + 1);
                            }
                            None => return Err("error:not a permutation".to_owned()),
                        }
                    }
                    if pos.len() != vals.len() {
                        return Err("error:not a permutation".to_owned());
                    }
                    Ok(pos)
                });
                match r {
                    Ok(Ok(p)) => out.write(&json!({"k": "sort", "n": sn, "res": p}))?,
                    Ok(Err(e)) => out.write(&json!({"k": "sort", "n": sn, "res": e}))?,
                    Err(p) => {
                        out.write(&json!({"k": "sort", "n": sn,
                                          "res": format!("panic:{}", p.chars().take(200).collect::<String>())}))?;
                        break; // abandon this evaluator
                    }
                }
            }
            Ok(())
        })?;
        if next == start {
            break;
        }
    }
    out.finish()
}

fn main() -> ExitCode {
    let args: Vec<String> = std::env::args().collect();
    std::panic::set_hook(Box::new(|info| {
        util::LAST_PANIC.with(|p| *p.borrow_mut() = Some(format!("{}", info)));
    }));
    let r = match args.get(1).map(|s| s.as_str()) {
        Some("replay") if args.len() >= 4 => {
            let modes: Vec<String> = util::opt(&args[4..], "--modes")
                .unwrap_or("ff,fz")
                .split(',')
                .map(|s| s.to_owned())
                .collect();
            replay(&args[2], &args[3], &modes)
        }
        _ => {
            eprintln!("usage: vh_c09 replay <universe.json> <out.ndjson> [--modes ff,fz,zf,zz]");
            return ExitCode::from(2);
        }
    };
    match r {
        Ok(()) => ExitCode::SUCCESS,
        Err(e) => {
            eprintln!("vh_c09: {:#}", e);
            ExitCode::from(2)
        }
    }
}

//! vh_c13: replays TLC-generated histories of spec/HeapRefs.tla (Gen_HeapRefs.tla) on the real
//! heaps: modules are built by evaluating small Starlark sources, frozen, loaded from each other
//! (direct, re-export, inside containers, captured by functions), owned handles are taken and moved
//! into other heaps, Globals are built from module values and modules from Globals, and every
//! holder is dropped in the order the history says.  After EVERY step the content of every value the
//! specification says is still reachable is decoded from the real heap and compared with the tree
//! TLC printed when the value was created.  Freed arenas are poisoned (0xA5) by the hook in
//! `Drop for Arena`, so a forgotten heap reference is a content mismatch or a crash of this process
//! (the driver runs it as a child and attributes the crash to the case in the progress file).
//!
//!   vh_c13 run <cases.ndjson> <out.ndjson> <trace.ndjson> <progress.txt> [--seed S]
//!
//! The trace (one event per step: the step, the arenas whose `heap_free` was seen during it, and the
//! real `FrozenHeapRef::refs()` graph reachable from the alive holders) is validated by
//! Trace_HeapRefs.tla.
#![allow(clippy::all)]
#![allow(dead_code)]

#[path = "../util.rs"]
mod util;

use std::collections::BTreeMap;
use std::collections::HashMap;
use std::collections::HashSet;
use std::process::ExitCode;
use std::sync::mpsc::channel;
use std::sync::mpsc::Receiver;
use std::sync::mpsc::Sender;
use std::sync::Arc;
use std::sync::Mutex;
use std::thread::JoinHandle;

use dupe::Dupe;
use serde_json::json;
use serde_json::Value as J;
use starlark::environment::FrozenModule;
use starlark::environment::Globals;
use starlark::environment::GlobalsBuilder;
use starlark::environment::Module;
use starlark::eval::Evaluator;
use starlark::eval::FileLoader;
use starlark::syntax::AstModule;
use starlark::syntax::Dialect;
use starlark::values::dict::DictRef;
use starlark::values::list::AllocList;
use starlark::values::list::ListRef;
use starlark::values::tuple::TupleRef;
use starlark::values::FrozenHeapRef;
use starlark::values::OwnedFrozen;
use starlark::values::Value;

type Owned = OwnedFrozen<Value<'static>>;
type HandleSlot = Arc<Mutex<Option<Owned>>>;

// ------------------------------------------------------------------------------------------
// the conventions shared with Gen_HeapRefs.tla: pad strings, literals, wrapper templates

fn pad(k: u64, j: u64, i: u64) -> String {
    let mut s = format!("P{}.{}.{}|", k, j, i);
    let n = 40 + ((k * 7 + j * 3 + i) % 5) * 8;
    let mut x: u64 = k * 131 + j * 31 + i * 7 + 17;
    for _ in 0..n {
        x = x.wrapping_mul(6364136223846793005).wrapping_add(1442695040888963407);
        s.push((b'a' + ((x >> 33) % 26) as u8) as char);
    }
    s
}

fn sym_name(mk: u64, mj: u64) -> String {
    format!("x{}_{}", mk, mj)
}

/// Starlark literal for a tree without function nodes.
fn lit(t: &J) -> String {
    match t["t"].as_str().unwrap_or("") {
        "p" => format!(
            "\"{}\"",
            pad(t["k"].as_u64().unwrap(), t["j"].as_u64().unwrap(), t["i"].as_u64().unwrap())
        ),
        "n" => format!("{}", t["n"].as_i64().unwrap()),
        "s" => format!("\"{}\"", t["s"].as_str().unwrap()),
        "l" => format!(
            "[{}]",
            t["v"].as_array().unwrap().iter().map(lit).collect::<Vec<_>>().join(", ")
        ),
        "u" => {
            let xs: Vec<String> = t["v"].as_array().unwrap().iter().map(lit).collect();
            if xs.len() == 1 {
                format!("({},)", xs[0])
            } else {
                format!("({})", xs.join(", "))
            }
        }
        "d" => format!(
            "{{{}}}",
            t["v"]
                .as_array()
                .unwrap()
                .iter()
                .map(|kv| format!("{}: {}", lit(&kv[0]), lit(&kv[1])))
                .collect::<Vec<_>>()
                .join(", ")
        ),
        other => panic!("harness: no literal for tree node {:?}", other),
    }
}

/// Source defining module k's own value from its tree (a top-level "f" node is a closure
/// capturing the literal of its result).
fn own_src(k: u64, tree: &J) -> String {
    let name = sym_name(k, 1);
    if tree["t"] == "f" {
        format!(
            "def _mk{k}(v):\n    def g():\n        return v\n    return g\n{name} = _mk{k}({lit})\n",
            k = k,
            name = name,
            lit = lit(&tree["v"])
        )
    } else {
        format!("{} = {}\n", name, lit(tree))
    }
}

/// Source binding symbol j of module k to the value named `src`, wrapped as `how`.
fn wrap_src(k: u64, j: u64, how: &str, src: &str) -> String {
    let name = sym_name(k, j);
    match how {
        "direct" => format!("{} = {}\n", name, src),
        "list" => format!("{} = [{}, \"{}\"]\n", name, src, pad(k, j, 1)),
        "dict" => format!("{} = {{\"{}\": {}, \"n\": {}}}\n", name, pad(k, j, 1), src, 100 * k + j),
        "tuple" => format!("{} = ({}, ({}, \"{}\"), {})\n", name, k, src, pad(k, j, 1), j),
        "gdef" => format!("def {}():\n    return [{}, \"{}\"]\n", name, src, pad(k, j, 1)),
        "clos" => format!(
            "def _mk{k}_{j}(v):\n    def g():\n        return (v, \"{p}\")\n    return g\n{name} = _mk{k}_{j}({src})\n",
            k = k,
            j = j,
            p = pad(k, j, 2),
            name = name,
            src = src
        ),
        other => panic!("harness: unknown how {:?}", other),
    }
}

fn has_fn(t: &J) -> bool {
    match t {
        J::Object(m) => m.get("t").map_or(false, |x| x == "f") || m.values().any(has_fn),
        J::Array(a) => a.iter().any(has_fn),
        _ => false,
    }
}

/// Decode a real value into the tree notation of Gen_HeapRefs.tla.
fn decode<'v>(v: Value<'v>, eval: &mut Option<&mut Evaluator<'v, '_, '_>>, depth: u32) -> J {
    if depth > 12 {
        return json!({"t": "?", "ty": "too deep"});
    }
    if let Some(s) = v.unpack_str() {
        return decode_str(s);
    }
    if let Some(n) = v.unpack_i32() {
        return json!({"t": "n", "n": n});
    }
    if let Some(l) = ListRef::from_value(v) {
        let xs: Vec<J> = l.iter().map(|x| decode(x, eval, depth + 1)).collect();
        return json!({"t": "l", "v": xs});
    }
    if let Some(t) = TupleRef::from_value(v) {
        let xs: Vec<J> = t.iter().map(|x| decode(x, eval, depth + 1)).collect();
        return json!({"t": "u", "v": xs});
    }
    if let Some(d) = DictRef::from_value(v) {
        let xs: Vec<J> = d
            .iter()
            .map(|(k, x)| J::Array(vec![decode(k, eval, depth + 1), decode(x, eval, depth + 1)]))
            .collect();
        return json!({"t": "d", "v": xs});
    }
    let ty = v.get_type();
    if ty == "function" {
        let r = match eval.as_mut() {
            None => return json!({"t": "f", "v": {"t": "?", "ty": "no evaluator"}}),
            Some(e) => e.eval_function(v, &[], &[]),
        };
        return match r {
            Ok(r) => json!({"t": "f", "v": decode(r, eval, depth + 1)}),
            Err(e) => json!({"t": "f", "v": {"t": "?", "ty": format!("call failed: {}", e)}}),
        };
    }
    json!({"t": "?", "ty": ty})
}

fn decode_str(s: &str) -> J {
    if let Some(rest) = s.strip_prefix('P') {
        if let Some(bar) = rest.find('|') {
            let ids: Vec<Option<u64>> = rest[..bar].split('.').map(|x| x.parse().ok()).collect();
            if ids.len() == 3 && ids.iter().all(|x| x.is_some()) {
                let (k, j, i) = (ids[0].unwrap(), ids[1].unwrap(), ids[2].unwrap());
                if k < 1000 && j < 1000 && i < 1000 && pad(k, j, i) == s {
                    return json!({"t": "p", "k": k, "j": j, "i": i});
                }
            }
        }
    }
    let b = s.as_bytes();
    json!({"t": "s", "s": String::from_utf8_lossy(&b[..b.len().min(80)]).into_owned()})
}

// ------------------------------------------------------------------------------------------
// an unfrozen module lives in its own thread (Module::with_temp_heap is closure-scoped), so
// that it can be dropped in any order relative to everything else

struct MapLoader(HashMap<String, FrozenModule>);

impl FileLoader for MapLoader {
    fn load(&self, path: &str) -> starlark::Result<FrozenModule> {
        match self.0.get(path) {
            Some(m) => Ok(m.dupe()),
            None => Err(starlark::Error::new_other(anyhow::anyhow!("no module {}", path))),
        }
    }
}

enum Cmd {
    Eval { src: String, loads: Vec<(String, FrozenModule)> },
    Set { name: String, handle: HandleSlot, consume: bool },
    Import { fm: FrozenModule },
    Check { names: Vec<String> },
    Freeze,
    Drop,
}

enum Resp {
    Done(Result<(), String>),
    Checked(Result<Vec<J>, String>),
    Frozen(Result<FrozenModule, String>),
}

fn actor(k: u64, globals: Globals, rx: Receiver<Cmd>, tx: Sender<Resp>) {
    Module::with_temp_heap(|module| {
        let mut neval = 0;
        let freeze = loop {
            let cmd = match rx.recv() {
                Ok(c) => c,
                Err(_) => break false,
            };
            match cmd {
                Cmd::Eval { src, loads } => {
                    neval += 1;
                    let r = util::catch(|| -> Result<(), String> {
                        let loader = MapLoader(loads.into_iter().collect());
                        let ast = AstModule::parse(&format!("m{}_{}.star", k, neval), src, &Dialect::Extended)
                            .map_err(|e| format!("parse: {}", e))?;
                        let mut eval = Evaluator::new(&module);
                        eval.set_loader(&loader);
                        eval.eval_module(ast, &globals).map_err(|e| format!("eval: {}", e))?;
                        Ok(())
                    });
                    let _ = tx.send(Resp::Done(r.unwrap_or_else(|p| Err(format!("panic: {}", p)))));
                }
                Cmd::Set { name, handle, consume } => {
                    let r = util::catch(|| -> Result<(), String> {
                        let mut g = handle.lock().unwrap();
                        let v = if consume {
                            g.take().ok_or("handle empty")?.add_to_heap(module.heap())
                        } else {
                            g.as_ref().ok_or("handle empty")?.as_ref().add_to_heap(module.heap())
                        };
                        drop(g);
                        module.set(&name, v);
                        Ok(())
                    });
                    drop(handle);
                    let _ = tx.send(Resp::Done(r.unwrap_or_else(|p| Err(format!("panic: {}", p)))));
                }
                Cmd::Import { fm } => {
                    let r = util::catch(|| module.import_public_symbols(&fm));
                    drop(fm);
                    let _ = tx.send(Resp::Done(r.map_err(|p| format!("panic: {}", p))));
                }
                Cmd::Check { names } => {
                    let r = util::catch(|| -> Result<Vec<J>, String> {
                        let mut eval = Evaluator::new(&module);
                        let mut out = Vec::new();
                        for n in &names {
                            let v = module.get(n).ok_or_else(|| format!("open module has no {}", n))?;
                            out.push(decode(v, &mut Some(&mut eval), 0));
                        }
                        Ok(out)
                    });
                    let _ = tx.send(Resp::Checked(r.unwrap_or_else(|p| Err(format!("panic: {}", p)))));
                }
                Cmd::Freeze => break true,
                Cmd::Drop => break false,
            }
        };
        if freeze {
            let r = util::catch(|| module.freeze().map_err(|e| format!("freeze: {:?}", e)));
            let _ = tx.send(Resp::Frozen(r.unwrap_or_else(|p| Err(format!("panic: {}", p)))));
        } else {
            drop(module);
        }
    })
}

struct Actor {
    tx: Sender<Cmd>,
    rx: Receiver<Resp>,
    join: Option<JoinHandle<()>>,
}

impl Actor {
    fn spawn(k: u64, globals: Globals) -> Actor {
        let (tx, arx) = channel();
        let (atx, rx) = channel();
        let join = std::thread::Builder::new()
            .stack_size(16 << 20)
            .spawn(move || actor(k, globals, arx, atx))
            .expect("spawn");
        Actor { tx, rx, join: Some(join) }
    }
    fn call(&self, c: Cmd) -> Result<Resp, String> {
        self.tx.send(c).map_err(|_| "module thread is gone".to_owned())?;
        self.rx.recv().map_err(|_| "module thread died".to_owned())
    }
    fn done(&self, c: Cmd) -> Result<(), String> {
        match self.call(c)? {
            Resp::Done(r) => r,
            _ => Err("protocol".to_owned()),
        }
    }
    fn finish(&mut self) {
        if let Some(j) = self.join.take() {
            let _ = j.join();
        }
    }
}

enum Slot {
    Open(Actor),
    Frozen(FrozenModule),
    Glob(Globals),
}

struct World {
    mods: BTreeMap<u64, Slot>,
    handles: BTreeMap<u64, HandleSlot>,
    trees: HashMap<(u64, u64), J>,
    ptr2k: HashMap<usize, u64>,
    rng: util::Rng,
    nchecks: u64,
}

struct Mismatch {
    what: String,
    holder: String,
    sym: J,
    expected: J,
    observed: J,
}

fn drop_somewhere<T: Send + 'static>(x: T, other_thread: bool) {
    if other_thread {
        let _ = std::thread::spawn(move || drop(x)).join();
    } else {
        drop(x);
    }
}

impl World {
    fn new(seed: u64) -> World {
        World {
            mods: BTreeMap::new(),
            handles: BTreeMap::new(),
            trees: HashMap::new(),
            ptr2k: HashMap::new(),
            rng: util::Rng(seed),
            nchecks: 0,
        }
    }

    fn frozen(&self, f: u64) -> Result<&FrozenModule, String> {
        match self.mods.get(&f) {
            Some(Slot::Frozen(m)) => Ok(m),
            _ => Err(format!("harness: m{} is not a frozen module", f)),
        }
    }
    fn open(&self, k: u64) -> Result<&Actor, String> {
        match self.mods.get(&k) {
            Some(Slot::Open(a)) => Ok(a),
            _ => Err(format!("harness: m{} is not open", k)),
        }
    }
    fn globals(&self, g: u64) -> Result<&Globals, String> {
        match self.mods.get(&g) {
            Some(Slot::Glob(x)) => Ok(x),
            _ => Err(format!("harness: g{} is not a Globals", g)),
        }
    }

    /// Build a Globals whose variable x{g}_1 is the frozen value `take` puts into the builder heap.
    fn build_globals(
        &self,
        g: u64,
        how: &str,
        take: impl FnOnce(&GlobalsBuilder) -> Result<starlark::values::FrozenValue, String>,
    ) -> Result<Globals, String> {
        let mut b = GlobalsBuilder::standard();
        let fv = take(&b)?;
        let name = sym_name(g, 1);
        match how {
            "direct" => b.set(&name, fv),
            "list" => {
                let p = b.alloc(pad(g, 1, 1));
                b.set(&name, AllocList(vec![fv, p]));
            }
            other => return Err(format!("harness: globals how {}", other)),
        }
        Ok(b.build())
    }

    fn step(&mut self, s: &J) -> Result<(), String> {
        let op = s["op"].as_str().unwrap_or("");
        let k = s["k"].as_u64().unwrap_or(0);
        let f = s["f"].as_u64().unwrap_or(0);
        let h = s["h"].as_u64().unwrap_or(0);
        let how = s["how"].as_str().unwrap_or("");
        let c = s["c"].as_bool().unwrap_or(false);
        let new = &s["new"];
        let (nk, nj) = (new["mk"].as_u64().unwrap_or(0), new["mj"].as_u64().unwrap_or(0));
        let src_name = sym_name(new["src"][0].as_u64().unwrap_or(0), new["src"][1].as_u64().unwrap_or(0));
        if nk != 0 {
            self.trees.entry((nk, nj)).or_insert_with(|| new["tree"].clone());
        }
        let other = self.rng.chance(1, 3);
        match op {
            "new_module" => {
                let globals = if f == 0 { Globals::standard() } else { self.globals(f)?.dupe() };
                let a = Actor::spawn(k, globals);
                let r = a.done(Cmd::Eval { src: own_src(k, &new["tree"]), loads: Vec::new() });
                self.mods.insert(k, Slot::Open(a));
                r
            }
            "eval_load" => {
                let fm = self.frozen(f)?.dupe();
                let local = format!("l{}_{}", k, nj);
                if c {
                    // the load statement goes on to a symbol that does not exist: it fails after `local`
                    // is bound, and the module is used further
                    let src = format!("load(\"m{}\", {} = \"{}\", zz_{} = \"no_such_symbol_\")\n", f, local, src_name, nj);
                    let a = self.open(k)?;
                    match a.done(Cmd::Eval { src, loads: vec![(format!("m{}", f), fm)] }) {
                        Err(e) if e.starts_with("eval:") => {}
                        Err(e) => return Err(e),
                        Ok(()) => return Err("harness: a load of a missing symbol succeeded".to_owned()),
                    }
                    return a.done(Cmd::Eval { src: wrap_src(k, nj, how, &local), loads: Vec::new() });
                }
                let src = format!(
                    "load(\"m{}\", {} = \"{}\")\n{}",
                    f,
                    local,
                    src_name,
                    wrap_src(k, nj, how, &local)
                );
                self.open(k)?.done(Cmd::Eval { src, loads: vec![(format!("m{}", f), fm)] })
            }
            "import_public" => {
                let fm = self.frozen(f)?.dupe();
                let a = self.open(k)?;
                a.done(Cmd::Import { fm })?;
                a.done(Cmd::Eval { src: wrap_src(k, nj, how, &src_name), loads: Vec::new() })
            }
            "use_global" => self
                .open(k)?
                .done(Cmd::Eval { src: wrap_src(k, nj, how, &src_name), loads: Vec::new() }),
            "add_to_heap" => {
                let slot = self.handles.get(&h).ok_or("harness: no handle")?.clone();
                let tmp = format!("t{}_{}", k, nj);
                let a = self.open(k)?;
                a.done(Cmd::Set { name: tmp.clone(), handle: slot, consume: c })?;
                let r = a.done(Cmd::Eval { src: wrap_src(k, nj, how, &tmp), loads: Vec::new() });
                if c {
                    self.handles.remove(&h);
                }
                r
            }
            "freeze" => {
                let mut a = match self.mods.remove(&k) {
                    Some(Slot::Open(a)) => a,
                    _ => return Err("harness: freeze of non-open".to_owned()),
                };
                let r = a.call(Cmd::Freeze);
                a.finish();
                match r? {
                    Resp::Frozen(Ok(fm)) => {
                        self.ptr2k.insert(fm.frozen_heap().verif_id(), k);
                        self.mods.insert(k, Slot::Frozen(fm));
                        Ok(())
                    }
                    Resp::Frozen(Err(e)) => Err(e),
                    _ => Err("protocol".to_owned()),
                }
            }
            "get_owned" => {
                let pick = self.rng.below(3);
                let fm = self.frozen(f)?;
                let o: Owned = match pick {
                    0 => fm.get_owned(&src_name).map_err(|e| format!("get_owned: {}", e))?,
                    1 => fm
                        .get_option_owned(&src_name)
                        .map_err(|e| format!("get_option_owned: {}", e))?
                        .ok_or("get_option_owned: None")?,
                    _ => fm
                        .get_option_ref(&src_name)
                        .map_err(|e| format!("get_option_ref: {}", e))?
                        .ok_or("get_option_ref: None")?
                        .to_owned(),
                };
                self.handles.insert(h, Arc::new(Mutex::new(Some(o))));
                Ok(())
            }
            "rehome" => {
                // a new frozen heap that allocates nothing: it only forwards the reference
                let i = s["i"].as_u64().unwrap_or(0);
                let slot = self.handles.get(&h).ok_or("harness: no handle")?.clone();
                let new: Owned = {
                    let guard = slot.lock().unwrap();
                    let o = guard.as_ref().ok_or("handle empty")?;
                    starlark::values::OwnedFrozen::build(
                        starlark::values::FrozenHeapName::user(format!("fwd{}", k)),
                        |heap| o.as_ref().add_to_frozen_heap(heap).unpack_frozen().unwrap().to_value(),
                    )
                };
                self.ptr2k.insert(new.owner().verif_id(), k);
                self.handles.insert(i, Arc::new(Mutex::new(Some(new))));
                Ok(())
            }
            "globals_from_module" => {
                let fm = self.frozen(f)?;
                let g = self.build_globals(k, how, |b| {
                    let r = fm
                        .get_option_ref(&src_name)
                        .map_err(|e| format!("get_option_ref: {}", e))?
                        .ok_or("get_option_ref: None")?;
                    r.add_to_frozen_heap(b.frozen_heap()).unpack_frozen().ok_or("not frozen".to_owned())
                })?;
                self.ptr2k.insert(g.heap().verif_id(), k);
                self.mods.insert(k, Slot::Glob(g));
                Ok(())
            }
            "globals_from_handle" => {
                let slot = self.handles.get(&h).ok_or("harness: no handle")?.clone();
                let g = self.build_globals(k, how, |b| {
                    let guard = slot.lock().unwrap();
                    let o = guard.as_ref().ok_or("handle empty")?;
                    o.as_ref().add_to_frozen_heap(b.frozen_heap()).unpack_frozen().ok_or("not frozen".to_owned())
                })?;
                self.ptr2k.insert(g.heap().verif_id(), k);
                self.mods.insert(k, Slot::Glob(g));
                Ok(())
            }
            "module_from_globals" => {
                let fm = FrozenModule::from_globals(self.globals(f)?).map_err(|e| format!("from_globals: {:?}", e))?;
                self.ptr2k.insert(fm.frozen_heap().verif_id(), k);
                self.mods.insert(k, Slot::Frozen(fm));
                Ok(())
            }
            "drop_open" => match self.mods.remove(&k) {
                Some(Slot::Open(mut a)) => {
                    let _ = a.tx.send(Cmd::Drop);
                    a.finish();
                    Ok(())
                }
                _ => Err("harness: drop_open of non-open".to_owned()),
            },
            "drop_frozen" => match self.mods.remove(&k) {
                Some(Slot::Frozen(m)) => {
                    drop_somewhere(m, other);
                    Ok(())
                }
                Some(Slot::Glob(g)) => {
                    drop_somewhere(g, other);
                    Ok(())
                }
                _ => Err("harness: drop_frozen of non-frozen".to_owned()),
            },
            "drop_handle" => {
                let slot = self.handles.remove(&h).ok_or("harness: no handle")?;
                let o = slot.lock().unwrap().take();
                match o {
                    Some(o) => drop_somewhere(o, other),
                    None => return Err("harness: handle already empty".to_owned()),
                }
                Ok(())
            }
            other => Err(format!("harness: unknown op {}", other)),
        }
    }

    /// Decode every symbol of every alive holder and compare with the tree TLC gave for it.
    fn check_live(&mut self, live: &J) -> Result<(), Mismatch> {
        for hol in live.as_array().map(|a| a.as_slice()).unwrap_or(&[]) {
            // <<kind, id, arena, <<mk, mj, via, mods>>...>> (see Gen_HeapRefs.tla LiveOf)
            let t = hol[0].as_str().unwrap_or("");
            let id = hol[1].as_u64().unwrap_or(0);
            let holder = format!("{}{}", if t == "handle" { "h" } else if t == "glob" { "g" } else { "m" }, id);
            let syms: Vec<J> = hol[3].as_array().cloned().unwrap_or_default();
            let names: Vec<String> = syms
                .iter()
                .map(|s| sym_name(s[0].as_u64().unwrap(), s[1].as_u64().unwrap()))
                .collect();
            let expected: Vec<J> = syms
                .iter()
                .map(|s| {
                    self.trees
                        .get(&(s[0].as_u64().unwrap(), s[1].as_u64().unwrap()))
                        .cloned()
                        .unwrap_or(J::Null)
                })
                .collect();
            let any_fn = expected.iter().any(has_fn);
            let pick = self.rng.below(2);
            let observed: Result<Vec<J>, String> = match t {
                "open" => match self.mods.get(&id) {
                    Some(Slot::Open(a)) => match a.call(Cmd::Check { names: names.clone() }) {
                        Ok(Resp::Checked(r)) => r,
                        Ok(_) => Err("protocol".to_owned()),
                        Err(e) => Err(e),
                    },
                    _ => Err("harness: not open".to_owned()),
                },
                "frozen" => match self.mods.get(&id) {
                    Some(Slot::Frozen(fm)) => util::catch(|| -> Result<Vec<J>, String> {
                        if !any_fn && pick == 0 {
                            // look at it in place through an owned handle
                            let mut out = Vec::new();
                            for n in &names {
                                let o = fm.get_owned(n).map_err(|e| format!("get_owned: {}", e))?;
                                out.push(o.by_ref(|v| decode(*v, &mut None, 0)));
                            }
                            Ok(out)
                        } else {
                            Module::with_temp_heap(|tmp| {
                                let mut eval = Evaluator::new(&tmp);
                                let mut out = Vec::new();
                                for n in &names {
                                    let v = fm
                                        .get_option_ref(n)
                                        .map_err(|e| format!("get_option_ref: {}", e))?
                                        .ok_or_else(|| format!("frozen module has no {}", n))?
                                        .add_to_heap(tmp.heap());
                                    out.push(decode(v, &mut Some(&mut eval), 0));
                                }
                                Ok(out)
                            })
                        }
                    })
                    .unwrap_or_else(|p| Err(format!("panic: {}", p))),
                    _ => Err("harness: not frozen".to_owned()),
                },
                "glob" => match self.mods.get(&id) {
                    Some(Slot::Glob(g)) => util::catch(|| -> Result<Vec<J>, String> {
                        Module::with_temp_heap(|tmp| {
                            let mut eval = Evaluator::new(&tmp);
                            let mut out = Vec::new();
                            for n in &names {
                                let fv = g
                                    .iter()
                                    .find(|(name, _)| name == n)
                                    .map(|(_, v)| v)
                                    .ok_or_else(|| format!("globals have no {}", n))?;
                                out.push(decode(fv.to_value(), &mut Some(&mut eval), 0));
                            }
                            Ok(out)
                        })
                    })
                    .unwrap_or_else(|p| Err(format!("panic: {}", p))),
                    _ => Err("harness: not globals".to_owned()),
                },
                "handle" => match self.handles.get(&id) {
                    Some(slot) => util::catch(|| -> Result<Vec<J>, String> {
                        let g = slot.lock().unwrap();
                        let o = g.as_ref().ok_or("handle empty")?;
                        if !any_fn && pick == 0 {
                            Ok(vec![o.by_ref(|v| decode(*v, &mut None, 0))])
                        } else {
                            Module::with_temp_heap(|tmp| {
                                let mut eval = Evaluator::new(&tmp);
                                let v = o.as_ref().add_to_heap(tmp.heap());
                                Ok(vec![decode(v, &mut Some(&mut eval), 0)])
                            })
                        }
                    })
                    .unwrap_or_else(|p| Err(format!("panic: {}", p))),
                    None => Err("harness: no handle".to_owned()),
                },
                _ => Err("harness: unknown holder kind".to_owned()),
            };
            match observed {
                Err(e) => {
                    return Err(Mismatch {
                        what: e,
                        holder,
                        sym: syms.first().cloned().unwrap_or(J::Null),
                        expected: J::Null,
                        observed: J::Null,
                    })
                }
                Ok(obs) => {
                    for (i, o) in obs.iter().enumerate() {
                        self.nchecks += 1;
                        if *o != expected[i] {
                            return Err(Mismatch {
                                what: "content".to_owned(),
                                holder,
                                sym: syms[i].clone(),
                                expected: expected[i].clone(),
                                observed: o.clone(),
                            });
                        }
                    }
                }
            }
        }
        Ok(())
    }

    /// The real keep-alive graph reachable from the alive holders, in arena numbers.
    fn real_edges(&self) -> Vec<(u64, u64)> {
        fn walk(h: &FrozenHeapRef, seen: &mut HashSet<usize>, edges: &mut Vec<(usize, usize)>) {
            let id = h.verif_id();
            if id == 0 || !seen.insert(id) {
                return;
            }
            for r in h.refs() {
                edges.push((id, r.verif_id()));
                walk(r, seen, edges);
            }
        }
        let mut seen = HashSet::new();
        let mut edges = Vec::new();
        for s in self.mods.values() {
            match s {
                Slot::Frozen(m) => walk(m.frozen_heap(), &mut seen, &mut edges),
                Slot::Glob(g) => walk(g.heap(), &mut seen, &mut edges),
                Slot::Open(_) => {}
            }
        }
        for slot in self.handles.values() {
            if let Some(o) = slot.lock().unwrap().as_ref() {
                walk(o.owner(), &mut seen, &mut edges);
            }
        }
        let mut out: Vec<(u64, u64)> = edges
            .iter()
            .filter_map(|(a, b)| Some((*self.ptr2k.get(a)?, *self.ptr2k.get(b)?)))
            .collect();
        out.sort();
        out.dedup();
        out
    }

    fn shutdown(&mut self) {
        let mods = std::mem::take(&mut self.mods);
        for (_, s) in mods {
            if let Slot::Open(mut a) = s {
                let _ = a.tx.send(Cmd::Drop);
                a.finish();
            }
        }
        self.handles.clear();
    }
}

struct Flushed(std::io::BufWriter<std::fs::File>);

impl Flushed {
    fn create(path: &str) -> anyhow::Result<Flushed> {
        Ok(Flushed(std::io::BufWriter::new(std::fs::File::create(path)?)))
    }
    fn write(&mut self, v: &J) -> anyhow::Result<()> {
        use std::io::Write;
        serde_json::to_writer(&mut self.0, v)?;
        self.0.write_all(b"\n")?;
        Ok(())
    }
    fn flush(&mut self) -> anyhow::Result<()> {
        use std::io::Write;
        self.0.flush()?;
        Ok(())
    }
}

fn run(args: &[String]) -> anyhow::Result<()> {
    let cases = util::read_ndjson(&args[0])?;
    // flushed after every case: the output of completed cases survives a crash of this process
    let mut out = Flushed::create(&args[1])?;
    let mut trace = Flushed::create(&args[2])?;
    let progress = &args[3];
    let seed = util::opt_u64(&args[4..], "--seed", 1);
    for (ci, case) in cases.iter().enumerate() {
        let id = case["id"].as_str().unwrap_or("?").to_owned();
        let steps = case["steps"].as_array().cloned().unwrap_or_default();
        let mut w = World::new(seed.wrapping_mul(1000003).wrapping_add(ci as u64));
        trace.write(&json!({"a": "reset", "id": id}))?;
        let mut result = json!({"id": id, "ok": true});
        let mut nrun = 0;
        for (si, s) in steps.iter().enumerate() {
            std::fs::write(progress, format!("{} {}\n", id, si))?;
            starlark::verif::global_start();
            let r = util::catch(|| w.step(s)).unwrap_or_else(|p| Err(format!("panic: {}", p)));
            let evs = starlark::verif::global_take();
            let mut freed: Vec<u64> = Vec::new();
            for e in &evs {
                if e.a == "heap_free" {
                    // (no step both releases an arena and creates one at the same address:
                    // a new arena is allocated before the heaps it replaces are dropped)
                    if let Some(k) = w.ptr2k.remove(&(e.y as usize)) {
                        freed.push(k);
                    }
                }
            }
            if let Err(e) = r {
                result = json!({"id": id, "ok": false, "step": si, "what": e, "holder": "", "sym": J::Null,
                                "expected": J::Null, "observed": J::Null, "phase": "step"});
                break;
            }
            nrun += 1;
            let chk = w.check_live(&s["live"]);
            let edges = w.real_edges();
            trace.write(&json!({"a": s["op"], "k": s["k"], "f": s["f"], "i": s["i"], "h": s["h"], "how": s["how"],
                                "c": s["c"], "freed": freed, "edges": edges}))?;
            if let Err(m) = chk {
                result = json!({"id": id, "ok": false, "step": si, "what": m.what, "holder": m.holder, "sym": m.sym,
                                "expected": m.expected, "observed": m.observed, "phase": "check"});
                break;
            }
        }
        std::fs::write(progress, format!("{} shutdown\n", id))?;
        let nchecks = w.nchecks;
        let _ = util::catch(|| w.shutdown());
        result["steps_run"] = json!(nrun);
        result["nchecks"] = json!(nchecks);
        out.write(&result)?;
        out.flush()?;
        trace.flush()?;
    }
    std::fs::write(progress, "done\n")?;
    out.flush()?;
    trace.flush()?;
    Ok(())
}

fn main() -> ExitCode {
    let args: Vec<String> = std::env::args().collect();
    std::panic::set_hook(Box::new(|info| {
        util::LAST_PANIC.with(|p| *p.borrow_mut() = Some(format!("{}", info)));
    }));
    if args.len() < 6 || args[1] != "run" {
        eprintln!("usage: vh_c13 run <cases.ndjson> <out.ndjson> <trace.ndjson> <progress.txt> [--seed S]");
        return ExitCode::from(2);
    }
    match run(&args[2..]) {
        Ok(()) => ExitCode::SUCCESS,
        Err(e) => {
            eprintln!("vh_c13: {:#}", e);
            ExitCode::from(2)
        }
    }
}

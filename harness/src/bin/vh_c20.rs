//! vh_c20: frozen modules are safe to share -- concurrent use equals sequential use.
//!
//!   vh_c20 work <out.json> <trace.ndjson> --seed S --threads T --rounds R [--trace 0|1] [--shared N]
//!   vh_c20 firstuse <out.json> --threads T --seed S
//!
//! `work`: T per-thread workloads (derived from the seed) are first run ALONE, one after the other
//! (the sequential reference: per-thread transcript + what a receiver observes for every module the
//! thread gives away); then all T run concurrently on the real code -- building and freezing small
//! modules, loading the same shared frozen modules, calling their functions, hashing and comparing
//! their values, sending frozen modules through channels to be used and dropped on another thread --
//! with seeded start barriers, yields and spins, arenas poisoned on release.  Every thread's
//! transcript and every receiver observation must equal the sequential reference.  With --trace 1
//! the chunk_* / cache_* hook events of the concurrent phase are written (addresses rank-compressed,
//! order preserved) for Trace_ChunkAlloc.tla.
//!
//! `firstuse`: in a fresh process T threads behind a barrier use the lazily initialised statics
//! (Globals::standard(), method tables, type machinery, constants) for the first time; their
//! transcripts must equal the one computed sequentially afterwards.
#![allow(clippy::all)]
#![allow(dead_code)]

#[path = "../util.rs"]
mod util;

use std::collections::BTreeMap;
use std::collections::BTreeSet;
use std::collections::HashMap;
use std::process::ExitCode;
use std::sync::mpsc::channel;
use std::sync::mpsc::Receiver;
use std::sync::mpsc::Sender;
use std::sync::Arc;
use std::sync::Barrier;
use std::sync::Mutex;

use dupe::Dupe;
use serde_json::json;
use serde_json::Value as J;
use starlark::environment::FrozenModule;
use starlark::environment::Globals;
use starlark::environment::Module;
use starlark::eval::Evaluator;
use starlark::eval::FileLoader;
use starlark::syntax::AstModule;
use starlark::syntax::Dialect;
use starlark::values::Value;
use util::Rng;

// ------------------------------------------------------------------------------------------
// programs

const WORDS: &[&str] = &[
    "alpha", "bravo", "charlie", "delta", "echo", "foxtrot", "golf", "hotel", "india", "juliet", "kilo", "lima",
    "mike", "november", "oscar", "papa", "quebec", "romeo", "sierra", "tango", "uniform", "victor", "whiskey",
    "xray", "yankee", "zulu",
];

fn word(rng: &mut Rng) -> String {
    let mut w = WORDS[rng.below(WORDS.len() as u64) as usize].to_owned();
    if rng.chance(1, 2) {
        w.push_str(&format!("_{}", rng.below(1000)));
    }
    if rng.chance(1, 4) {
        // long strings: heap allocated, hash cached lazily
        for _ in 0..rng.below(6) + 1 {
            w.push_str(WORDS[rng.below(WORDS.len() as u64) as usize]);
        }
    }
    w
}

fn word_list(rng: &mut Rng, n: u64) -> String {
    let ws: Vec<String> = (0..n).map(|_| format!("\"{}\"", word(rng))).collect();
    format!("[{}]", ws.join(", "))
}

/// A shared library module: pure functions, data, a dict, closures, a recursive function.
fn shared_src(k: u64, rng: &mut Rng) -> String {
    let n = 6 + rng.below(6);
    format!(
        r#"
data = {words}
table = {{w: (i, len(w), w.upper()) for i, w in enumerate(data)}}
pairs = sorted([(len(w), w) for w in data])
K = {kk}

def f(n):
    w = data[n % len(data)]
    return "%s:%d:%s" % (w, (n * K) % 97, w[::-1][:3])

def g(xs):
    out = []
    for x in xs:
        if x % 3 == 0:
            out.append(f(x))
        elif x % 3 == 1:
            out.append(str(table[data[x % len(data)]][1] + x))
        else:
            out.append(pairs[x % len(pairs)][1].title())
    return out

def fib(n):
    return n if n < 2 else fib(n - 1) + fib(n - 2)

def make_adder(a):
    def add(b):
        return a + b + K
    return add

add_k = make_adder({kk})

def digest(v):
    # structural walk: exercises type dispatch, iteration, hashing of frozen values
    if type(v) == "list" or type(v) == "tuple":
        return sum([digest(x) for x in v]) % 1000003
    if type(v) == "dict":
        return sum([digest(k) * 31 + digest(x) for k, x in v.items()]) % 1000003
    if type(v) == "string":
        return (hash(v) % 1000003 + len(v)) % 1000003
    if type(v) == "int":
        return v % 1000003
    return 7

def sum(xs):
    t = 0
    for x in xs:
        t += x
    return t

# types: two that are still anonymous when this module is frozen (only a list holds them) and two
# named here; values of each
KINDS = [enum("RED", "GREEN", "BLUE"), record(a = int, b = str)]
Way = enum("UP", "DOWN")
Rec = record(x = int, y = field(str, "d"))
a_way = Way("DOWN")
a_rec = Rec(x = {kk})

# two equal, physically distinct values nested 150 deep: comparing them goes 150 levels down, under
# the limit on nesting (which is per comparison, whatever other threads are comparing meanwhile)
def nest(d, leaf):
    v = [leaf]
    for _ in range(d):
        v = [v]
    return v
deep_l = nest(150, K)
deep_r = nest(150, K)
def same(x, y):
    return x == y

LIB = {k}
"#,
        words = word_list(rng, n),
        kk = 3 + rng.below(40),
        k = k
    )
}

/// A per-thread module: loads from the shared ones, defines values and functions, and ends in an
/// expression whose value goes to the transcript.
fn module_src(rng: &mut Rng, nshared: u64, tag: &str) -> String {
    let a = rng.below(nshared);
    let b = rng.below(nshared);
    let n = 3 + rng.below(5);
    let k = 2 + rng.below(30);
    let variant = rng.below(4);
    let body = match variant {
        0 => format!(
            r#"
def main(x):
    acc = []
    for i, w in enumerate(words):
        if (len(w) + x + i) % 3 == 0:
            acc.append(w.upper())
        else:
            acc.append(a_f(len(w) * K + x))
    return (acc, sorted(tbl.items())[:3], a_digest(b_data) + x)
"#
        ),
        1 => format!(
            r#"
def main(x):
    m = {{}}
    for w in words + b_data:
        m[w] = m.get(w, 0) + len(w) + x
    keys = sorted(m.keys())
    return ([(q, m[q]) for q in keys[:4]], a_fib(8 + x % 5), b_add_k(x), a_g([x, x + 1, x + 2]))
"#
        ),
        2 => format!(
            r#"
def mk(n):
    def inner(y):
        return [a_f(n + y), words[(n + y) % len(words)], K * y]
    return inner
helpers = [mk(i) for i in range(3)]
def main(x):
    return ([h(x) for h in helpers], a_digest([words, tbl, b_table]) , hash(words[0]) % 9973)
"#
        ),
        _ => format!(
            r#"
def main(x):
    t = tuple(words)
    same = [w for w in words if w in b_table]
    cmp = [(u < v, u == v) for u, v in zip(words, reversed(words))]
    return (t[x % len(t)], same, cmp[:3], b_pairs[x % len(b_pairs)], "{{}}-{{}}".format(a_LIB, b_LIB), a_digest(b_pairs))
"#
        ),
    };
    format!(
        r#"
load("shared{a}", a_f = "f", a_g = "g", a_fib = "fib", a_digest = "digest", a_LIB = "LIB", a_KINDS = "KINDS", a_Way = "Way", a_Rec = "Rec", a_way = "a_way", a_rec = "a_rec", a_deep_l = "deep_l", a_deep_r = "deep_r", a_same = "same")
load("shared{b}", b_data = "data", b_table = "table", b_pairs = "pairs", b_add_k = "add_k", b_LIB = "LIB")
TAG = "{tag}"
# the shared anonymous types bound to names of this module, and what can be seen of all the types
Col_{ident} = a_KINDS[0]
Pair_{ident} = a_KINDS[1]
def typed_{ident}(c, w: a_Way = a_way) -> a_Rec:
    return a_Rec(x = c.index, y = w.value)
types_seen = [repr(Col_{ident}("GREEN")), str(Col_{ident}), str(Pair_{ident}), repr(a_Way("UP")), str(a_Way),
              repr(a_Rec(x = 2)), repr(a_rec), repr(a_way), repr(typed_{ident}(Col_{ident}("BLUE"))), Col_{ident}.values(), [repr(v) for v in Col_{ident}],
              isinstance(a_way, a_Way), isinstance(a_rec, a_Rec)]
K = {k}
words = {words}
tbl = {{w: len(w) * K for w in words}}
{body}
data = [main(j) for j in range(2)]
deep = (len([1 for _ in range(60) if a_same(a_deep_l, a_deep_r)]), a_deep_l < a_deep_r, a_deep_l == [a_deep_r])
repr((TAG, data, types_seen, deep))
"#,
        a = a,
        b = b,
        tag = tag,
        ident = tag.chars().map(|c| if c.is_ascii_alphanumeric() { c } else { '_' }).collect::<String>(),
        k = k,
        words = word_list(rng, n),
        body = body
    )
}

struct SharedLoader(Vec<FrozenModule>);

impl FileLoader for SharedLoader {
    fn load(&self, path: &str) -> starlark::Result<FrozenModule> {
        let k: usize = path
            .strip_prefix("shared")
            .and_then(|s| s.parse().ok())
            .ok_or_else(|| starlark::Error::new_other(anyhow::anyhow!("no module {}", path)))?;
        match self.0.get(k) {
            Some(m) => Ok(m.dupe()),
            None => Err(starlark::Error::new_other(anyhow::anyhow!("no module {}", path))),
        }
    }
}

/// Evaluate `src`, return (value of the last expression as a string, frozen module).
fn build(name: &str, src: &str, loader: &SharedLoader, globals: &Globals) -> Result<(String, FrozenModule), String> {
    Module::with_temp_heap(|module| {
        let out = {
            let ast = AstModule::parse(name, src.to_owned(), &Dialect::Extended).map_err(|e| format!("parse: {}", e))?;
            let mut eval = Evaluator::new(&module);
            eval.set_loader(loader);
            let v = eval.eval_module(ast, globals).map_err(|e| format!("eval: {}", e))?;
            match v.unpack_str() {
                Some(s) => s.to_owned(),
                None => v.to_repr(),
            }
        };
        let fm = module.freeze().map_err(|e| format!("freeze: {:?}", e))?;
        Ok((out, fm))
    })
}

/// Call `name(arg)` of a frozen module and return the repr of the result.
fn call(fm: &FrozenModule, name: &str, arg: i32) -> String {
    Module::with_temp_heap(|tmp| {
        let mut eval = Evaluator::new(&tmp);
        let f: Value = match fm.get_option_ref(name) {
            Ok(Some(r)) => r.add_to_heap(tmp.heap()),
            Ok(None) => return format!("<no {}>", name),
            Err(e) => return format!("<error {}>", e),
        };
        let a = tmp.heap().alloc(arg);
        match eval.eval_function(f, &[a], &[]) {
            Ok(v) => v.to_repr(),
            Err(e) => format!("<error {}>", e),
        }
    })
}

/// Hash / compare / read values of a frozen module without calling into it.
fn inspect(fm: &FrozenModule, name: &str, salt: u64) -> String {
    match fm.get_owned(name) {
        Err(e) => format!("<error {}>", e),
        Ok(o) => o.by_ref(|v| {
            let h = v.get_hashed().map(|h| h.hash().get() as u64).ok();
            let l = v.length().ok();
            let r = v.to_repr();
            let mut fnv: u64 = 1469598103934665603 ^ salt;
            for b in r.as_bytes() {
                fnv = (fnv ^ *b as u64).wrapping_mul(1099511628211);
            }
            format!("{}:{:?}:{:?}:{:x}:{}", name, h, l, fnv, v.equals(*v).unwrap_or(false))
        }),
    }
}

/// What a receiver does with a module it was given before dropping it.
fn use_module(fm: &FrozenModule) -> String {
    format!("{}|{}|{}", call(fm, "main", 5), inspect(fm, "data", 1), inspect(fm, "tbl", 2))
}

// ------------------------------------------------------------------------------------------
// workloads

#[derive(Clone)]
struct Cfg {
    seed: u64,
    threads: u64,
    rounds: u64,
    nshared: u64,
}

enum Msg {
    Module { from: u64, round: u64, fm: FrozenModule },
}

struct Net {
    txs: Vec<Sender<Msg>>,
    barrier: Arc<Barrier>,
}

struct ThreadResult {
    transcript: Vec<String>,
    observed: BTreeMap<(u64, u64), String>, // what this thread saw for modules given to it
    nsent: u64,
}

fn noise(rng: &mut Rng) {
    match rng.below(6) {
        0 => std::thread::yield_now(),
        1 => {
            let n = rng.below(2000);
            let mut x = 0u64;
            for i in 0..n {
                x = x.wrapping_add(i * i);
            }
            std::hint::black_box(x);
        }
        2 => std::thread::sleep(std::time::Duration::from_micros(rng.below(200))),
        _ => {}
    }
}

/// Thread i's workload. `net` = None: alone (the reference); receivers' observations of the modules
/// this thread gives away are computed here and returned in `observed` under (i, round).
fn workload(
    i: u64,
    cfg: &Cfg,
    shared: &[FrozenModule],
    barrier_rounds: &BTreeSet<u64>,
    net: Option<(&Net, &Receiver<Msg>)>,
) -> ThreadResult {
    let mut rng = Rng(cfg.seed.wrapping_mul(0x9E3779B97F4A7C15) ^ (i + 1).wrapping_mul(0xD1B54A32D192ED03));
    let mut sched = Rng(cfg.seed ^ 0xABCDEF ^ (i << 32)); // scheduling noise only
    let globals = workload_globals();
    let loader = SharedLoader(shared.to_vec());
    let mut res = ThreadResult { transcript: Vec::new(), observed: BTreeMap::new(), nsent: 0 };
    let mut own: Vec<(u64, FrozenModule)> = Vec::new();
    let drain = |res: &mut ThreadResult, rx: &Receiver<Msg>| {
        while let Ok(Msg::Module { from, round, fm }) = rx.try_recv() {
            let o = use_module(&fm);
            res.observed.insert((from, round), o);
            drop(fm); // released on this thread, not the one that built it
        }
    };
    for r in 0..cfg.rounds {
        if let Some((net, rx)) = net {
            if barrier_rounds.contains(&r) {
                // everybody arrives here together and drops what it was given: the decrements of
                // chunks shared by consecutive heaps of one builder race across threads
                net.barrier.wait();
                drain(&mut res, rx);
            }
            noise(&mut sched);
            drain(&mut res, rx);
        }
        // the round before a barrier every thread fans modules out to several other threads
        let op = if barrier_rounds.contains(&(r + 1)) { 8 } else { rng.below(8) };
        let line = match op {
            0 | 1 | 2 => {
                let tag = format!("t{}r{}", i, r);
                let src = module_src(&mut rng, cfg.nshared, &tag);
                match build(&format!("{}.star", tag), &src, &loader, &globals) {
                    Ok((out, fm)) => {
                        own.push((r * 8, fm));
                        if own.len() > 4 {
                            own.remove(0);
                        }
                        out
                    }
                    Err(e) => format!("<build error {}>", e),
                }
            }
            3 => {
                let k = rng.below(cfg.nshared) as usize;
                let a = rng.below(50) as i32;
                match rng.below(3) {
                    0 => call(&shared[k], "f", a),
                    1 => call(&shared[k], "fib", a % 12),
                    _ => call(&shared[k], "add_k", a),
                }
            }
            4 => {
                let k = rng.below(cfg.nshared) as usize;
                let name = ["data", "table", "pairs"][rng.below(3) as usize];
                inspect(&shared[k], name, r)
            }
            5 | 6 => {
                // give a module away: used and dropped by another thread
                if own.is_empty() {
                    "nothing to send".to_owned()
                } else {
                    let idx = rng.below(own.len() as u64) as usize;
                    let (round, fm) = own.remove(idx);
                    let to = (i + 1 + rng.below(cfg.threads.max(2) - 1)) % cfg.threads;
                    res.nsent += 1;
                    match net {
                        Some((net, _)) => {
                            let _ = net.txs[to as usize].send(Msg::Module { from: i, round, fm });
                        }
                        None => {
                            let o = use_module(&fm);
                            res.observed.insert((i, round), o);
                            drop(fm);
                        }
                    }
                    format!("sent r{} to {}", round, to)
                }
            }
            8 => {
                // fan-out: consecutive small heaps of this thread share chunks through its cache
                let mut outs = Vec::new();
                for slot in 1..=3u64 {
                    let tag = format!("t{}r{}f{}", i, r, slot);
                    let src = module_src(&mut rng, cfg.nshared, &tag);
                    match build(&format!("{}.star", tag), &src, &loader, &globals) {
                        Ok((out, fm)) => {
                            let to = (i + slot) % cfg.threads;
                            res.nsent += 1;
                            match net {
                                Some((net, _)) if to != i => {
                                    let _ = net.txs[to as usize].send(Msg::Module { from: i, round: r * 8 + slot, fm });
                                }
                                _ => {
                                    let o = use_module(&fm);
                                    res.observed.insert((i, r * 8 + slot), o);
                                    drop(fm);
                                }
                            }
                            outs.push(out);
                        }
                        Err(e) => outs.push(format!("<build error {}>", e)),
                    }
                }
                outs.join(" ; ")
            }
            _ => {
                if own.is_empty() {
                    "nothing to call".to_owned()
                } else {
                    let idx = rng.below(own.len() as u64) as usize;
                    call(&own[idx].1, "main", rng.below(9) as i32)
                }
            }
        };
        res.transcript.push(line);
    }
    drop(own);
    if let Some((net, rx)) = net {
        net.barrier.wait(); // everything has been sent
        drain(&mut res, rx);
    }
    res
}

fn workload_globals() -> Globals {
    use starlark::environment::LibraryExtension as L;
    Globals::extended_by(&[L::RecordType, L::EnumType, L::Typing])
}

fn build_shared(cfg: &Cfg) -> Result<Vec<FrozenModule>, String> {
    let globals = workload_globals();
    let mut out = Vec::new();
    for k in 0..cfg.nshared {
        let mut rng = Rng(cfg.seed ^ (0x5151 + k));
        let (_, fm) = build(&format!("shared{}.star", k), &shared_src(k, &mut rng), &SharedLoader(Vec::new()), &globals)?;
        out.push(fm);
    }
    Ok(out)
}

/// Order-preserving compression of every address in the chunk / cache events.
fn write_trace(path: &str, evs: &[starlark::verif::Ev]) -> anyhow::Result<usize> {
    const HDR: i64 = 8; // size_of::<ChunkData>(): AtomicU32 + AlignedSize(u32)
    let mut addrs: BTreeSet<i64> = BTreeSet::new();
    for e in evs {
        match e.a {
            "chunk_alloc" => {
                addrs.insert(e.x);
                addrs.insert(e.x + HDR);
                addrs.insert(e.x + HDR + e.y);
            }
            "cache_store" | "cache_fetch" => {
                addrs.insert(e.x);
                addrs.insert(e.x + e.y);
            }
            a if a.starts_with("chunk_") => {
                addrs.insert(e.x);
            }
            _ => {}
        }
    }
    let rank: HashMap<i64, usize> = addrs.iter().enumerate().map(|(i, a)| (*a, i + 1)).collect();
    let mut w = util::NdWriter::create(path)?;
    let mut n = 0;
    for e in evs {
        let j = match e.a {
            "chunk_alloc" => json!({"a": "alloc", "t": e.tid, "c": rank[&e.x], "b": rank[&(e.x + HDR)], "e": rank[&(e.x + HDR + e.y)], "v": 0}),
            "chunk_inc_begin" => json!({"a": "incb", "t": e.tid, "c": rank[&e.x], "b": 0, "e": 0, "v": 0}),
            "chunk_inc_end" => json!({"a": "ince", "t": e.tid, "c": rank[&e.x], "b": 0, "e": 0, "v": e.y}),
            "chunk_dec_begin" => json!({"a": "decb", "t": e.tid, "c": rank[&e.x], "b": 0, "e": 0, "v": 0}),
            "chunk_free" => json!({"a": "free", "t": e.tid, "c": rank[&e.x], "b": 0, "e": 0, "v": 0}),
            "chunk_dec_end" => json!({"a": "dece", "t": e.tid, "c": rank[&e.x], "b": 0, "e": 0, "v": 0}),
            "cache_store" => json!({"a": "store", "t": e.tid, "c": 0, "b": rank[&e.x], "e": rank[&(e.x + e.y)], "v": e.z}),
            "cache_fetch" => json!({"a": "fetch", "t": e.tid, "c": 0, "b": rank[&e.x], "e": rank[&(e.x + e.y)], "v": e.z}),
            _ => continue,
        };
        w.write(&j)?;
        n += 1;
    }
    w.finish()?;
    Ok(n)
}

fn work(args: &[String]) -> anyhow::Result<()> {
    let out_path = &args[0];
    let trace_path = &args[1];
    let opts = &args[2..];
    let cfg = Cfg {
        seed: util::opt_u64(opts, "--seed", 1),
        threads: util::opt_u64(opts, "--threads", 4).max(1),
        rounds: util::opt_u64(opts, "--rounds", 20),
        nshared: util::opt_u64(opts, "--shared", 3).max(1),
    };
    let want_trace = util::opt_u64(opts, "--trace", 0) == 1;
    let shared = build_shared(&cfg).map_err(|e| anyhow::anyhow!("shared modules: {}", e))?;

    // rounds at which all threads meet (also in the reference: they decide the fan-out rounds)
    let mut sched = Rng(cfg.seed ^ 0x77);
    let mut barrier_rounds = BTreeSet::new();
    barrier_rounds.insert(0);
    for _ in 0..(cfg.rounds / 5) {
        barrier_rounds.insert(sched.below(cfg.rounds));
    }

    // sequential reference: each workload alone, on a thread of its own, one after the other
    let mut reference: Vec<ThreadResult> = Vec::new();
    for i in 0..cfg.threads {
        // a PRIVATE, pristine copy of the shared modules: what this workload sees "running alone" must
        // not depend on what an earlier reference run left behind in shared frozen values
        let private = build_shared(&cfg).map_err(|e| anyhow::anyhow!("shared modules: {}", e))?;
        let (c, s) = (cfg.clone(), private);
        let br = barrier_rounds.clone();
        let r = std::thread::spawn(move || util::catch(|| workload(i, &c, &s, &br, None)))
            .join()
            .map_err(|_| anyhow::anyhow!("reference thread died"))?
            .map_err(|p| anyhow::anyhow!("reference workload panicked: {}", p))?;
        reference.push(r);
    }
    let mut ref_obs: BTreeMap<(u64, u64), String> = BTreeMap::new();
    for r in &reference {
        ref_obs.extend(r.observed.iter().map(|(k, v)| (*k, v.clone())));
    }

    // concurrent run
    let mut txs = Vec::new();
    let mut rxs = Vec::new();
    for _ in 0..cfg.threads {
        let (tx, rx) = channel();
        txs.push(tx);
        rxs.push(Some(rx));
    }
    let net = Arc::new(Net { txs, barrier: Arc::new(Barrier::new(cfg.threads as usize)) });
    if want_trace {
        starlark::verif::global_start();
    }
    let mut joins = Vec::new();
    for i in 0..cfg.threads {
        let (c, s, n, br) = (cfg.clone(), shared.clone(), net.clone(), barrier_rounds.clone());
        let rx = rxs[i as usize].take().unwrap();
        joins.push(std::thread::spawn(move || {
            let r = util::catch(|| workload(i, &c, &s, &br, Some((&n, &rx))));
            if r.is_err() {
                // keep the others from waiting forever on a barrier
                std::process::abort();
            }
            r
        }));
    }
    let mut got: Vec<Result<ThreadResult, String>> = Vec::new();
    for j in joins {
        got.push(j.join().unwrap_or_else(|_| Err("thread died".to_owned())));
    }
    let evs = if want_trace { starlark::verif::global_take() } else { Vec::new() };

    let mut mismatches: Vec<J> = Vec::new();
    let mut nops = 0;
    let mut nrecv = 0;
    for (i, g) in got.iter().enumerate() {
        match g {
            Err(p) => mismatches.push(json!({"thread": i, "what": "panic", "got": p})),
            Ok(g) => {
                let r = &reference[i];
                nops += g.transcript.len();
                if g.transcript.len() != r.transcript.len() {
                    mismatches.push(json!({"thread": i, "what": "transcript length", "expected": r.transcript.len(), "got": g.transcript.len()}));
                }
                for (k, (a, b)) in r.transcript.iter().zip(g.transcript.iter()).enumerate() {
                    if a != b {
                        mismatches.push(json!({"thread": i, "what": "transcript", "index": k, "expected": a, "got": b}));
                        break;
                    }
                }
                for (key, o) in &g.observed {
                    nrecv += 1;
                    match ref_obs.get(key) {
                        Some(e) if e == o => {}
                        e => mismatches.push(json!({"thread": i, "what": "received module", "from": key.0, "round": key.1,
                                                   "expected": e, "got": o})),
                    }
                }
            }
        }
    }
    let nsent: u64 = reference.iter().map(|r| r.nsent).sum();
    if mismatches.is_empty() && nrecv as u64 != nsent {
        mismatches.push(json!({"thread": -1, "what": "modules lost", "expected": nsent, "got": nrecv}));
    }
    let nev = if want_trace { write_trace(trace_path, &evs)? } else { 0 };
    mismatches.truncate(5);
    let sample = reference.get(0).and_then(|r| r.transcript.get(0)).cloned().unwrap_or_default();
    let out = json!({"ok": mismatches.is_empty(), "mismatches": mismatches, "threads": cfg.threads, "rounds": cfg.rounds,
                     "seed": cfg.seed, "ops": nops, "sent": nsent, "received": nrecv, "events": nev,
                     "sample": sample.chars().take(300).collect::<String>()});
    std::fs::write(out_path, serde_json::to_string(&out)?)?;
    Ok(())
}

// ------------------------------------------------------------------------------------------
// first-use races

const FIRST_USE_SRC: &str = r#"
def typed(x: int, y: str = "a") -> list[str]:
    return [y * x, str(x)]
rec = record(a = int, b = str)
en = enum("p", "q")
def all_of_it():
    s = "Hello, World"
    l = [3, 1, 2]
    d = {"k": 1, "j": 2}
    out = [
        s.upper(), s.split(", "), s.find("W"), s.removeprefix("He"), "%s-%d" % (s[:2], 7), s.startswith("He"),
        sorted(l), l.index(2), d.get("k"), d.keys(), d.items(), list(reversed(l)), max(l), min(l),
        any([x > 2 for x in l]), all([x > 0 for x in l]), len(s), hash("abc"), int("12") + 1, str(1.5), repr(None),
        typed(2), typed(1, "b"), type(typed), dir("x")[:3], dir([])[:3], dir({})[:3],
        rec(a = 1, b = "x"), en("p"), en.values(), isinstance(1, int), isinstance("a", str | int),
        struct(a = 1, b = [1, 2]), hasattr(struct(a = 1), "a"),
        json.encode({"a": [1, 2, None]}), json.decode("[1, {\"b\": 2}]"),
        list(range(0, 10, 3)), (1, "a") < (1, "b"), 1 << 40, -7 // 2, 7 % -3, abs(-3), bool([]), tuple(l), enumerate(l),
        zip(l, s.elems()), getattr(s, "lower")(), " x ".strip(), "a,b".partition(","), "ab".codepoints(),
    ]
    return repr(out)
all_of_it()
"#;

fn first_use_once() -> String {
    let r = util::catch(|| {
        let globals = Globals::extended_internal();
        let std_names: Vec<String> = Globals::standard().names().map(|s| s.as_str().to_owned()).collect();
        let ext_names = globals.names().count();
        let doc = globals.documentation().members.len();
        Module::with_temp_heap(|module| {
            let ast = AstModule::parse("first.star", FIRST_USE_SRC.to_owned(), &Dialect::Extended)
                .map_err(|e| format!("parse: {}", e))?;
            let mut eval = Evaluator::new(&module);
            eval.enable_static_typechecking(true);
            let v = eval.eval_module(ast, &globals).map_err(|e| format!("eval: {}", e))?;
            let s = v.unpack_str().map(|s| s.to_owned()).unwrap_or_else(|| v.to_repr());
            Ok::<String, String>(format!("{}|{}|{}|{}", std_names.join(","), ext_names, doc, s))
        })
    });
    match r {
        Ok(Ok(s)) => s,
        Ok(Err(e)) => format!("<error {}>", e),
        Err(p) => format!("<panic {}>", p),
    }
}

fn firstuse(args: &[String]) -> anyhow::Result<()> {
    let out_path = &args[0];
    let opts = &args[1..];
    let threads = util::opt_u64(opts, "--threads", 8).max(1);
    let seed = util::opt_u64(opts, "--seed", 1);
    let barrier = Arc::new(Barrier::new(threads as usize));
    let results: Arc<Mutex<Vec<(u64, String)>>> = Arc::new(Mutex::new(Vec::new()));
    let mut joins = Vec::new();
    for i in 0..threads {
        let (b, res) = (barrier.clone(), results.clone());
        joins.push(std::thread::spawn(move || {
            let mut sched = Rng(seed ^ (i << 20));
            b.wait();
            if sched.chance(1, 3) {
                noise(&mut sched);
            }
            let s = first_use_once();
            res.lock().unwrap().push((i, s));
        }));
    }
    let mut died = 0;
    for j in joins {
        if j.join().is_err() {
            died += 1;
        }
    }
    let sequential = first_use_once();
    let res = results.lock().unwrap();
    let mut mismatches: Vec<J> = Vec::new();
    for (i, s) in res.iter() {
        if *s != sequential {
            mismatches.push(json!({"thread": i, "what": "first use", "expected": sequential.chars().take(400).collect::<String>(),
                                   "got": s.chars().take(400).collect::<String>()}));
        }
    }
    if died > 0 || res.len() as u64 != threads {
        mismatches.push(json!({"thread": -1, "what": "threads died", "got": died}));
    }
    mismatches.truncate(5);
    let mut fnv: u64 = 1469598103934665603;
    for b in sequential.as_bytes() {
        fnv = (fnv ^ *b as u64).wrapping_mul(1099511628211);
    }
    let out = json!({"ok": mismatches.is_empty() && !sequential.starts_with('<'), "mismatches": mismatches, "threads": threads,
                     "seed": seed, "digest": format!("{:x}", fnv), "len": sequential.len(),
                     "sample": sequential.chars().take(300).collect::<String>()});
    std::fs::write(out_path, serde_json::to_string(&out)?)?;
    Ok(())
}

fn main() -> ExitCode {
    let args: Vec<String> = std::env::args().collect();
    std::panic::set_hook(Box::new(|info| {
        util::LAST_PANIC.with(|p| *p.borrow_mut() = Some(format!("{}", info)));
    }));
    let r = match args.get(1).map(|s| s.as_str()) {
        Some("work") if args.len() >= 4 => work(&args[2..]),
        Some("firstuse") if args.len() >= 3 => firstuse(&args[2..]),
        _ => {
            eprintln!("usage: vh_c20 work <out.json> <trace.ndjson> --seed S --threads T --rounds R [--trace 1]\n       vh_c20 firstuse <out.json> --threads T --seed S");
            return ExitCode::from(2);
        }
    };
    match r {
        Ok(()) => ExitCode::SUCCESS,
        Err(e) => {
            eprintln!("vh_c20: {:#}", e);
            ExitCode::from(2)
        }
    }
}

use std::cell::RefCell;
use std::fs::File;
use std::io::BufRead;
use std::io::BufReader;
use std::io::BufWriter;
use std::io::Write;
use std::panic::AssertUnwindSafe;

use serde_json::Value as J;

thread_local! {
    pub static LAST_PANIC: RefCell<Option<String>> = const { RefCell::new(None) };
}

pub fn read_ndjson(path: &str) -> anyhow::Result<Vec<J>> {
    let f = BufReader::new(File::open(path)?);
    let mut v = Vec::new();
    for line in f.lines() {
        let line = line?;
        if line.trim().is_empty() {
            continue;
        }
        v.push(serde_json::from_str(&line)?);
    }
    Ok(v)
}

pub struct NdWriter(BufWriter<File>);

impl NdWriter {
    pub fn create(path: &str) -> anyhow::Result<NdWriter> {
        Ok(NdWriter(BufWriter::new(File::create(path)?)))
    }
    pub fn write(&mut self, v: &J) -> anyhow::Result<()> {
        serde_json::to_writer(&mut self.0, v)?;
        self.0.write_all(b"\n")?;
        Ok(())
    }
    pub fn flush(&mut self) -> anyhow::Result<()> {
        self.0.flush()?;
        Ok(())
    }
    pub fn finish(mut self) -> anyhow::Result<()> {
        self.0.flush()?;
        Ok(())
    }
}

/// Run `f`, turning a panic into `Err(message)`.
pub fn catch<T>(f: impl FnOnce() -> T) -> Result<T, String> {
    LAST_PANIC.with(|p| *p.borrow_mut() = None);
    match std::panic::catch_unwind(AssertUnwindSafe(f)) {
        Ok(v) => Ok(v),
        Err(_) => Err(LAST_PANIC
            .with(|p| p.borrow_mut().take())
            .unwrap_or_else(|| "panic".to_owned())),
    }
}

pub fn opt<'a>(opts: &'a [String], name: &str) -> Option<&'a str> {
    let mut i = 0;
    while i + 1 < opts.len() {
        if opts[i] == name {
            return Some(&opts[i + 1]);
        }
        i += 1;
    }
    None
}

pub fn opt_u64(opts: &[String], name: &str, default: u64) -> u64 {
    opt(opts, name).and_then(|s| s.parse().ok()).unwrap_or(default)
}

/// Small deterministic RNG (splitmix64), so traces depend only on the seed.
pub struct Rng(pub u64);

impl Rng {
    pub fn next(&mut self) -> u64 {
        self.0 = self.0.wrapping_add(0x9E3779B97F4A7C15);
        let mut z = self.0;
        z = (z ^ (z >> 30)).wrapping_mul(0xBF58476D1CE4E5B9);
        z = (z ^ (z >> 27)).wrapping_mul(0x94D049BB133111EB);
        z ^ (z >> 31)
    }
    pub fn below(&mut self, n: u64) -> u64 {
        if n == 0 { 0 } else { self.next() % n }
    }
    pub fn chance(&mut self, num: u64, den: u64) -> bool {
        self.below(den) < num
    }
}

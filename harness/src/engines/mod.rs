pub mod c11;

pub fn dispatch(mode: &str, engine: &str, rest: &[String]) -> anyhow::Result<()> {
    match (mode, engine) {
        ("replay", "c11") => c11::replay(rest),
        ("record", "c11") => c11::record(rest),
        _ => anyhow::bail!("unknown mode/engine {} {}", mode, engine),
    }
}

pub mod c11;
pub mod dap;
pub mod det;
pub mod natcat;
pub mod sem;

pub fn dispatch(mode: &str, engine: &str, rest: &[String]) -> anyhow::Result<()> {
    match (mode, engine) {
        ("replay", "c11") => c11::replay(rest),
        ("record", "c11") => c11::record(rest),
        ("record", "sem") => sem::record(rest),
        ("replay", "sem") => sem::replay(rest),
        ("runsrc", "sem") => sem::runsrc(rest),
        ("replay", "sess") => sem::replay_sessions(rest),
        ("replay", "lim") => sem::replay_limits(rest),
        ("record", "gcprog") => sem::record_gcprog(rest),
        ("replay", "gc") => sem::replay_gc(rest),
        ("record", "sess") => sem::record_sessions(rest),
        ("record", "natcat") => natcat::record(rest),
        ("record", "opt") => sem::record_opt(rest),
        ("record", "det") => det::record(rest),
        ("replay", "frz") => sem::replay_frozen(rest),
        ("replay", "dap") => dap::replay(rest),
        ("record", "inst") => dap::record_inst(rest),
        _ => anyhow::bail!("unknown mode/engine {} {}", mode, engine),
    }
}

//! C18: the debug adapter, profilers and statement hooks observe without interfering.
//!
//! replay dap: TLC-generated behaviours of Dap.tla (program, breakpoint lines, command sequence)
//!   are driven against the real DapAdapter from a second thread, as debug/adapter/tests.rs does;
//!   the stops (line, scalar variables), the transcript and the outcome are reported.
//! record inst: a corpus of Sem programs is run under every ProfileMode and with a no-op statement
//!   hook; each run is a Trace_Sem record.

use std::sync::mpsc;
use std::time::Duration;

use debugserver_types::SetBreakpointsArguments;
use debugserver_types::Source;
use debugserver_types::SourceBreakpoint;
use serde_json::json;
use serde_json::Value as J;
use starlark::debug::prepare_dap_adapter;
use starlark::debug::resolve_breakpoints;
use starlark::debug::DapAdapter;
use starlark::debug::DapAdapterClient;
use starlark::debug::DapAdapterEvalHook;
use starlark::debug::StepKind;
use starlark::environment::Module;
use starlark::eval::BeforeStmtFunc;
use starlark::eval::BeforeStmtFuncDyn;
use starlark::eval::Evaluator;
use starlark::eval::ProfileMode;
use starlark::syntax::AstModule;

use super::sem::gen;
use super::sem::print;
use super::sem::run;
use crate::util;

#[derive(Debug)]
struct Client {
    tx: std::sync::Mutex<mpsc::Sender<()>>,
}

impl DapAdapterClient for Client {
    fn event_stopped(&self) -> starlark::Result<()> {
        let _ = self.tx.lock().unwrap().send(());
        Ok(())
    }
}

fn bp_args(lines: &[i64]) -> SetBreakpointsArguments {
    bp_args_for("prog.star", lines)
}

fn bp_args_for(path: &str, lines: &[i64]) -> SetBreakpointsArguments {
    SetBreakpointsArguments {
        breakpoints: Some(
            lines
                .iter()
                .map(|l| SourceBreakpoint { column: None, condition: None, hit_condition: None, line: *l, log_message: None })
                .collect(),
        ),
        lines: None,
        source: Source {
            adapter_data: None,
            checksums: None,
            name: None,
            origin: None,
            path: Some(path.to_owned()),
            presentation_hint: None,
            source_reference: None,
            sources: None,
        },
        source_modified: None,
    }
}

/// `lib`: source of lib.star for a two-file session (then `src` is main.star and loads from it);
/// `reqs`: the setBreakpoints requests in order, (file, lines) with the lines of that file.
/// Stops inside lib.star are reported with line + 100 (the model's numbering).
fn drive(src: &str, lib: Option<&str>, reqs: &[(String, Vec<i64>)], cmds: &[String], globals: &starlark::environment::Globals) -> J {
    let (tx, rx) = mpsc::channel::<()>();
    let (adapter, hook) = prepare_dap_adapter(Box::new(Client { tx: std::sync::Mutex::new(tx) }));
    let main_name = if lib.is_some() { "main.star" } else { "prog.star" };
    let parse = |name: &str, text: &str| AstModule::parse(name, text.to_owned(), &run::dialect());
    let ast = match parse(main_name, src) {
        Ok(a) => a,
        Err(e) => return json!({"status": "parse_error", "what": format!("{}", e)}),
    };
    let lib_ast = match lib.map(|l| parse("lib.star", l)) {
        Some(Err(e)) => return json!({"status": "parse_error", "what": format!("{}", e)}),
        Some(Ok(a)) => Some(a),
        None => None,
    };
    for (file, lines) in reqs {
        let (name, tree) = if file == "lib" { ("lib.star", lib_ast.as_ref()) } else { (main_name, Some(&ast)) };
        let Some(tree) = tree else { return json!({"status": "resolve_error", "what": "no such file"}) };
        let resolved = match resolve_breakpoints(&bp_args_for(name, lines), tree) {
            Ok(r) => r,
            Err(e) => return json!({"status": "resolve_error", "what": format!("{}", e)}),
        };
        if let Err(e) = adapter.set_breakpoints(name, &resolved) {
            return json!({"status": "set_breakpoints_error", "what": format!("{}", e)});
        }
    }
    // lib.star is evaluated and frozen beforehand, without the debugger
    let frozen_lib = match lib_ast {
        None => None,
        Some(a) => {
            run::OUT.with(|o| o.borrow_mut().clear());
            let r = Module::with_temp_heap(|module| {
                {
                    let mut eval = Evaluator::new(&module);
                    eval.eval_module(a, globals).map_err(|e| format!("{}", e))?;
                }
                module.freeze().map_err(|e| format!("{:?}", e))
            });
            match r {
                Ok(f) => Some(f),
                Err(e) => return json!({"status": "lib_error", "what": e}),
            }
        }
    };
    let hook: Box<dyn DapAdapterEvalHook> = Box::new(hook);
    let (done_tx, done_rx) = mpsc::channel::<J>();
    std::thread::scope(|s| {
        s.spawn(move || {
            run::OUT.with(|o| o.borrow_mut().clear());
            let r = util::catch(std::panic::AssertUnwindSafe(|| {
                let mut mods = std::collections::HashMap::new();
                if let Some(f) = &frozen_lib {
                    mods.insert("lib.star", f);
                }
                let loader = starlark::eval::ReturnFileLoader { modules: &mods };
                Module::with_temp_heap(|module| {
                    let mut eval = Evaluator::new(&module);
                    hook.add_dap_hooks(&mut eval);
                    eval.set_loader(&loader);
                    let r = match eval.eval_module(ast, globals) {
                        Ok(_) => (String::new(), 0, String::new()),
                        Err(e) => run::err_of(&e),
                    };
                    drop(eval);
                    let mut names: Vec<String> = module.names().map(|n| n.as_str().to_owned()).collect();
                    names.sort();
                    (r.0, r.1, r.2, names)
                })
            }));
            let out = run::OUT.with(|o| std::mem::take(&mut *o.borrow_mut()));
            let j = match r {
                Ok((kind, line, msg, names)) => json!({"out": out, "kind": kind, "line": line, "msg": msg, "names": names}),
                Err(p) => json!({"out": out, "kind": "panic", "line": 0, "msg": p}),
            };
            let _ = done_tx.send(j);
        });
        let mut stops: Vec<J> = Vec::new();
        let mut evals: Vec<J> = Vec::new();
        let mut ci = 0usize;
        let start = std::time::Instant::now();
        loop {
            if let Ok(j) = done_rx.try_recv() {
                return json!({"status": "ok", "stops": stops, "result": j, "evals": evals});
            }
            // generous: the box may be heavily loaded, and a false "hang" is a false alarm
            if start.elapsed() > Duration::from_secs(180) {
                // unblock the evaluation thread as well as we can, then give up on this case
                for _ in 0..1000 {
                    let _ = adapter.continue_();
                    if done_rx.recv_timeout(Duration::from_millis(10)).is_ok() {
                        break;
                    }
                }
                return json!({"status": "hang", "stops": stops});
            }
            match rx.recv_timeout(Duration::from_millis(2)) {
                Ok(()) => {
                    let line = adapter
                        .top_frame()
                        .ok()
                        .flatten()
                        .map(|f| {
                            let in_lib = f.source.as_ref().and_then(|s| s.path.as_ref()).map(|p| p.ends_with("lib.star")).unwrap_or(false);
                            if in_lib { f.line + 100 } else { f.line }
                        })
                        .unwrap_or(-1);
                    let vars: Vec<J> = adapter
                        .variables(0)
                        .map(|v| {
                            v.locals
                                .into_iter()
                                .filter(|x| ["int", "string", "bool", "NoneType"].contains(&x.type_.as_str()))
                                .map(|x| json!({"n": format!("{}", x.name), "v": x.value, "t": x.type_}))
                                .collect()
                        })
                        .unwrap_or_default();
                    let depth = adapter
                        .stack_trace(debugserver_types::StackTraceArguments { format: None, levels: None, start_frame: None, thread_id: 0 })
                        .map(|s| s.stack_frames.len())
                        .unwrap_or(0);
                    stops.push(json!({"line": line, "vars": vars, "frames": depth}));
                    // evaluate / watch requests leave the session paused: serve them, then the next command
                    let mut c = cmds.get(ci).map(|s| s.as_str()).unwrap_or("continue");
                    ci += 1;
                    while c.starts_with("eval_") {
                        let (expr, want_ok) = match c {
                            "eval_ok" => ("1 + 1", true),
                            "eval_fail" => ("1 // 0", false),
                            _ => ("1 +", false),
                        };
                        let r = adapter.evaluate(expr);
                        let ok = match &r {
                            Ok(info) => want_ok && info.result == "2",
                            Err(_) => !want_ok,
                        };
                        evals.push(json!({"cmd": c, "as_expected": ok}));
                        c = cmds.get(ci).map(|s| s.as_str()).unwrap_or("continue");
                        ci += 1;
                    }
                    let r = match c {
                        "into" => adapter.step(StepKind::Into),
                        "over" => adapter.step(StepKind::Over),
                        "out" => adapter.step(StepKind::Out),
                        _ => adapter.continue_(),
                    };
                    if let Err(e) = r {
                        return json!({"status": "command_error", "what": format!("{}", e), "stops": stops});
                    }
                }
                Err(_) => {}
            }
        }
    })
}

/// vh replay dap <cases.ndjson> <out.ndjson>: first line {"progs":[ast...]}; then cases
/// {"id","prog":i,"bps":[lines],"cmds":[..]}
pub fn replay(rest: &[String]) -> anyhow::Result<()> {
    let rows = util::read_ndjson(&rest[0])?;
    let mut out = util::NdWriter::create(&rest[1])?;
    let globals = run::globals();
    let mut srcs: Vec<String> = Vec::new();
    let mut libs: Vec<Option<String>> = Vec::new();
    for r in &rows {
        if let Some(ps) = r.get("progs") {
            let ls = r.get("libs").and_then(|l| l.as_array()).cloned().unwrap_or_default();
            for (i, p) in ps.as_array().unwrap().iter().enumerate() {
                let mut ast = p.clone();
                // keep the lines TLC assigned: print a copy and check they agree
                let src = print::module(&mut ast);
                let lib = ls.get(i).filter(|l| l.as_array().map(|a| !a.is_empty()).unwrap_or(false)).map(|l| {
                    let mut la = l.clone();
                    print::module(&mut la)
                });
                // main.star of a two-file session: line 1 is the load statement (the model numbers from 2)
                let src = if lib.is_some() { format!("load(\"lib.star\", \"sc\")\n{}", src) } else { src };
                srcs.push(src);
                libs.push(lib);
            }
            out.write(&json!({"srcs": srcs, "libs": libs}))?;
            continue;
        }
        let pi = r["prog"].as_u64().unwrap_or(1) as usize - 1;
        let bps: Vec<i64> = r["bps"].as_array().map(|a| a.iter().filter_map(|x| x.as_i64()).collect()).unwrap_or_default();
        let cmds: Vec<String> = r["cmds"].as_array().map(|a| a.iter().filter_map(|x| x.as_str().map(|s| s.to_owned())).collect()).unwrap_or_default();
        // requests: given explicitly (two-file sessions), or the single request of the breakpoint set;
        // lines of lib.star arrive in the model's numbering (+100)
        let reqs: Vec<(String, Vec<i64>)> = match r.get("reqs").and_then(|x| x.as_array()) {
            Some(a) if !a.is_empty() => a
                .iter()
                .map(|q| {
                    let f = q["f"].as_str().unwrap_or("main").to_owned();
                    let ls: Vec<i64> = q["ls"].as_array().map(|a| a.iter().filter_map(|x| x.as_i64()).map(|l| if f == "lib" { l - 100 } else { l }).collect()).unwrap_or_default();
                    (f, ls)
                })
                .collect(),
            _ => vec![("main".to_owned(), bps.clone())],
        };
        let res = match util::catch(|| drive(&srcs[pi], libs[pi].as_deref(), &reqs, &cmds, &globals)) {
            Ok(j) => j,
            Err(p) => json!({"status": "panic", "what": p}),
        };
        out.write(&json!({"id": r["id"], "res": res}))?;
        out.flush()?;
    }
    out.finish()
}

struct NoopHook;

impl<'e> BeforeStmtFuncDyn<'e> for NoopHook {
    fn call<'v>(&mut self, _span: starlark::codemap::FileSpanRef, _continued: bool, _eval: &mut Evaluator<'v, '_, 'e>) -> starlark::Result<()> {
        Ok(())
    }
}

/// vh record inst <out.ndjson> --seed S --n N: every program under every instrumentation
pub fn record_inst(rest: &[String]) -> anyhow::Result<()> {
    let mut out = util::NdWriter::create(&rest[0])?;
    let seed = util::opt_u64(rest, "--seed", 1);
    let n = util::opt_u64(rest, "--n", 30);
    let globals = run::globals();
    let modes: Vec<(&str, Option<ProfileMode>)> = vec![
        ("none", None),
        ("stmt_hook", None),
        ("heap_summary_allocated", Some(ProfileMode::HeapSummaryAllocated)),
        ("heap_summary_retained", Some(ProfileMode::HeapSummaryRetained)),
        ("heap_flame_allocated", Some(ProfileMode::HeapFlameAllocated)),
        ("heap_flame_retained", Some(ProfileMode::HeapFlameRetained)),
        ("heap_allocated", Some(ProfileMode::HeapAllocated)),
        ("heap_retained", Some(ProfileMode::HeapRetained)),
        ("statement", Some(ProfileMode::Statement)),
        ("coverage", Some(ProfileMode::Coverage)),
        ("bytecode", Some(ProfileMode::Bytecode)),
        ("bytecode_pairs", Some(ProfileMode::BytecodePairs)),
        ("time_flame", Some(ProfileMode::TimeFlame)),
        ("typecheck", Some(ProfileMode::Typecheck)),
    ];
    for i in 0..n {
        let mut rng = util::Rng(seed.wrapping_mul(11_000_027).wrapping_add(i));
        let wrap = rng.chance(1, 2);
        let mut ast = {
            let mut g = gen::Gen::new(&mut rng);
            g.set_fail_rate(if i % 2 == 0 { 25 } else { 3 });
            g.set_dialect(true);
            g.module(4 + (i % 7) as usize, wrap)
        };
        let src = print::module(&mut ast);
        for (name, mode) in &modes {
            run::OUT.with(|o| o.borrow_mut().clear());
            let r = util::catch(std::panic::AssertUnwindSafe(|| {
                let a = AstModule::parse("prog.star", src.clone(), &run::dialect())?;
                Module::with_temp_heap(|module| {
                    let mut eval = Evaluator::new(&module);
                    if let Some(m) = mode {
                        eval.enable_profile(m).map_err(|e| starlark::Error::new_other(e))?;
                    }
                    if *name == "stmt_hook" {
                        eval.before_stmt_for_dap(BeforeStmtFunc::from_dyn(Box::new(NoopHook)));
                    }
                    eval.eval_module(a, &globals).map(|_| ())
                })
            }));
            let o = run::OUT.with(|o| std::mem::take(&mut *o.borrow_mut()));
            let (kind, line, msg) = match r {
                Ok(Ok(())) => (String::new(), 0, String::new()),
                Ok(Err(e)) => run::err_of(&e),
                Err(p) => ("panic".to_owned(), 0, p),
            };
            if kind == "parse" || (msg.starts_with("Variable `") && msg.contains("not found")) {
                continue;
            }
            out.write(&json!({"id": format!("i{}p{}-{}", seed, i, name), "ast": ast, "src": src, "out": o,
                "err": {"kind": kind, "line": line}, "msg": msg}))?;
        }
    }
    out.finish()
}

//! C11: ordered maps and sets under any history.
//!
//! replay: every line is one TLC-generated operation history (one per transition of the
//! SmallMap model) with the expected return value and contents after every step; it is run
//! against the real containers, each abstract key standing for a block of `block` real keys so
//! that the real index threshold is crossed where the model crosses its own.
//!
//! record: long random histories on the real SmallMap (real threshold), logged for
//! Trace_SmallMap.tla.

use std::collections::BTreeSet;
use std::hash::Hash;
use std::hash::Hasher;

use serde_json::json;
use serde_json::Value as J;
use starlark_map::ordered_map::OrderedMap;
use starlark_map::small_map::Entry;
use starlark_map::small_map::SmallMap;
use starlark_map::small_set::SmallSet;
use starlark_map::Hashed;
use starlark_map::StarlarkHashValue;

use crate::util;

#[derive(Clone, Debug, PartialEq, Eq, PartialOrd, Ord)]
struct K {
    a: u32,
    j: u32,
}

impl Hash for K {
    fn hash<H: Hasher>(&self, state: &mut H) {
        state.write_u32(self.a * 1000 + self.j);
    }
}

/// How hashes are chosen.
#[derive(Clone)]
enum HashMode {
    /// hash(a, j) = class[a] * 1000 + j, passed through the `*_hashed` APIs: collisions are
    /// exactly the model's.
    Class(Vec<u32>),
    /// `Hashed::new` (the crate's own hasher), unhashed APIs.
    Natural,
}

impl HashMode {
    fn hk(&self, k: &K) -> Hashed<K> {
        match self {
            HashMode::Class(c) => Hashed::new_unchecked(
                StarlarkHashValue::new_unchecked(c[(k.a - 1) as usize % c.len()] * 1000 + k.j),
                k.clone(),
            ),
            HashMode::Natural => Hashed::new(k.clone()),
        }
    }
}

fn opt_eq(some: bool, ret: u32, got: Option<u32>) -> bool {
    match got {
        None => !some,
        Some(x) => some && x == ret,
    }
}

struct Fail {
    what: String,
}

type R<T> = Result<T, Fail>;

fn fail<T>(what: String) -> R<T> {
    Err(Fail { what })
}

macro_rules! ensure {
    ($c:expr, $($arg:tt)*) => {
        if !($c) {
            return fail(format!($($arg)*));
        }
    };
}

/// Check the real contents against the expected abstract sequence and every lookup path.
fn check_small_map(
    m: &SmallMap<K, u32>,
    hm: &HashMode,
    b: u32,
    keys: &[u32],
    vals: &[u32],
    nkeys: u32,
) -> R<bool> {
    let real: Vec<(K, u32)> = m.iter().map(|(k, v)| (k.clone(), *v)).collect();
    ensure!(
        real.len() == keys.len() * b as usize,
        "len: real {} expected {}*{}",
        real.len(),
        keys.len(),
        b
    );
    ensure!(m.len() == real.len(), "len() {} != iter count {}", m.len(), real.len());
    ensure!(m.is_empty() == real.is_empty(), "is_empty disagrees");
    for (p, a) in keys.iter().enumerate() {
        let blk = &real[p * b as usize..(p + 1) * b as usize];
        let js: BTreeSet<u32> = blk.iter().map(|(k, _)| k.j).collect();
        ensure!(
            blk.iter().all(|(k, v)| k.a == *a && *v == vals[p]) && js.len() == b as usize,
            "order/contents: block {} expected key {} val {} got {:?}",
            p,
            a,
            vals[p],
            blk
        );
    }
    // every lookup path, for every key of the universe
    for a in 1..=nkeys {
        for j in 0..b {
            let k = K { a, j };
            let pos = real.iter().position(|(x, _)| *x == k);
            let val = pos.map(|p| real[p].1);
            let h = hm.hk(&k);
            let (g, gi, c, gf) = match hm {
                HashMode::Class(_) => (
                    m.get_hashed(h.as_ref()).copied(),
                    m.get_index_of_hashed(h.as_ref()),
                    m.contains_key_hashed(h.as_ref()),
                    m.get_full_hashed(h.as_ref()).map(|(i, kk, v)| (i, kk.clone(), *v)),
                ),
                HashMode::Natural => (
                    m.get(&k).copied(),
                    m.get_index_of(&k),
                    m.contains_key(&k),
                    m.get_full(&k).map(|(i, kk, v)| (i, kk.clone(), *v)),
                ),
            };
            ensure!(g == val, "get({:?}) = {:?}, sequence says {:?}", k, g, val);
            ensure!(gi == pos, "get_index_of({:?}) = {:?}, sequence says {:?}", k, gi, pos);
            ensure!(c == pos.is_some(), "contains_key({:?}) = {}, sequence says {:?}", k, c, pos);
            ensure!(
                gf == pos.map(|p| (p, k.clone(), real[p].1)),
                "get_full({:?}) = {:?}, sequence says {:?}",
                k,
                gf,
                pos
            );
        }
    }
    for (i, (k, v)) in real.iter().enumerate() {
        let gi = m.get_index(i).map(|(kk, vv)| (kk.clone(), *vv));
        ensure!(gi == Some((k.clone(), *v)), "get_index({}) = {:?}, iteration says {:?}", i, gi, (k, v));
    }
    ensure!(m.get_index(real.len()).is_none(), "get_index(len) is Some");
    ensure!(
        m.first().map(|(k, v)| (k.clone(), *v)) == real.first().cloned(),
        "first() disagrees"
    );
    ensure!(
        m.last().map(|(k, v)| (k.clone(), *v)) == real.last().cloned(),
        "last() disagrees"
    );
    let ks: Vec<K> = m.keys().cloned().collect();
    let vs: Vec<u32> = m.values().copied().collect();
    ensure!(
        ks == real.iter().map(|x| x.0.clone()).collect::<Vec<_>>()
            && vs == real.iter().map(|x| x.1).collect::<Vec<_>>(),
        "keys()/values() disagree with iter()"
    );
    let cl = m.clone();
    ensure!(cl == *m && cl.eq_ordered(m), "clone differs");
    // index consistency (only judged when an index exists)
    let snap = m.verif_index_snapshot();
    if let Some((n, v)) = &snap {
        ensure!(*n == real.len(), "index holds {} slots for {} entries", n, real.len());
        for (i, p) in v.iter().enumerate() {
            ensure!(*p == i as i64, "index: entry {} not reachable through the index", i);
        }
    }
    Ok(snap.is_some())
}

fn u(v: &J, f: &str) -> u32 {
    v[f].as_u64().unwrap_or(0) as u32
}

fn arr(v: &J, f: &str) -> Vec<u32> {
    v[f].as_array().map(|a| a.iter().map(|x| x.as_u64().unwrap() as u32).collect()).unwrap_or_default()
}

/// Apply one abstract step to the real SmallMap; check return values.
fn step_small_map(m: &mut SmallMap<K, u32>, hm: &HashMode, b: u32, st: &J) -> R<()> {
    let op = st["op"].as_str().unwrap_or("");
    let (k, v, i) = (u(st, "k"), u(st, "v"), u(st, "i"));
    let some = st["some"].as_bool().unwrap_or(false);
    let ret = u(st, "ret");
    let hashed = matches!(hm, HashMode::Class(_));
    match op {
        "insert" => {
            for j in 0..b {
                let kk = K { a: k, j };
                let r = if hashed { m.insert_hashed(hm.hk(&kk), v) } else { m.insert(kk, v) };
                ensure!(opt_eq(some, ret, r), "insert({},{}) returned {:?}", k, v, r);
            }
        }
        "insert_unique" => {
            for j in 0..b {
                let kk = K { a: k, j };
                let (rk, rv) = if hashed {
                    m.insert_hashed_unique_unchecked(hm.hk(&kk), v)
                } else {
                    m.insert_unique_unchecked(kk.clone(), v)
                };
                ensure!(*rk == kk && *rv == v, "insert_unique returned wrong entry");
            }
        }
        "entry_or_insert" => {
            for j in 0..b {
                let kk = K { a: k, j };
                let r = if hashed {
                    match m.entry_hashed(hm.hk(&kk)) {
                        Entry::Occupied(e) => {
                            ensure!(*e.key() == kk, "entry key differs");
                            *e.get()
                        }
                        Entry::Vacant(e) => {
                            ensure!(*e.key() == kk, "entry key differs");
                            *e.insert(v)
                        }
                    }
                } else {
                    *m.entry(kk).or_insert(v)
                };
                ensure!(some && r == ret, "entry({}).or_insert({}) gave {}", k, v, r);
            }
        }
        "shift_remove" => {
            for j in 0..b {
                let kk = K { a: k, j };
                let r = if hashed {
                    if j % 2 == 0 {
                        m.shift_remove_hashed(hm.hk(&kk).as_ref())
                    } else {
                        m.shift_remove_hashed_entry(hm.hk(&kk).as_ref()).map(|(rk, rv)| {
                            assert!(rk == kk);
                            rv
                        })
                    }
                } else if j % 2 == 0 {
                    m.shift_remove(&kk)
                } else {
                    m.shift_remove_entry(&kk).map(|x| x.1)
                };
                ensure!(opt_eq(some, ret, r), "shift_remove({}) returned {:?}", k, r);
            }
        }
        "shift_remove_index" => {
            if !some {
                let r = m.shift_remove_index((i * b) as usize);
                ensure!(r.is_none(), "shift_remove_index out of range returned {:?}", r);
            } else {
                for _ in 0..b {
                    let r = m.shift_remove_index((i * b) as usize);
                    match r {
                        Some((rk, rv)) => {
                            ensure!(rk.a == k && rv == ret, "shift_remove_index({}) returned {:?}", i, (rk, rv))
                        }
                        None => return fail(format!("shift_remove_index({}) returned None", i)),
                    }
                }
            }
        }
        "pop" => {
            if !some {
                ensure!(m.pop().is_none(), "pop on empty returned Some");
            } else {
                for _ in 0..b {
                    match m.pop() {
                        Some((rk, rv)) => ensure!(rk.a == k && rv == ret, "pop returned {:?}", (rk, rv)),
                        None => return fail("pop returned None".to_owned()),
                    }
                }
            }
        }
        "reverse" => m.reverse(),
        "sort_keys" => m.sort_keys(),
        "retain" => {
            let s: BTreeSet<u32> = arr(st, "s").into_iter().collect();
            m.retain(|kk, _| s.contains(&kk.a));
        }
        "clear" => m.clear(),
        "reserve" => m.reserve((i * b) as usize),
        "maybe_drop_index" => m.maybe_drop_index(),
        "get" => {}
        _ => return fail(format!("unknown op {}", op)),
    }
    Ok(())
}

/// The same history on SmallSet (values ignored), OrderedMap (SmallMap wrapper).
fn run_small_set(hm: &HashMode, b: u32, steps: &[J], nkeys: u32) -> R<()> {
    let mut s: SmallSet<K> = SmallSet::new();
    let hashed = matches!(hm, HashMode::Class(_));
    for (n, st) in steps.iter().enumerate() {
        let op = st["op"].as_str().unwrap_or("");
        let (k, i) = (u(st, "k"), u(st, "i"));
        let some = st["some"].as_bool().unwrap_or(false);
        match op {
            "insert" | "entry_or_insert" => {
                for j in 0..b {
                    let kk = K { a: k, j };
                    let was_new = if hashed { s.insert_hashed(hm.hk(&kk)) } else { s.insert(kk) };
                    // model: insert returns old value iff present
                    let expect_new = if op == "insert" { !some } else { was_new };
                    ensure!(was_new == expect_new, "set step {} insert({}) new={}", n, k, was_new);
                }
            }
            "insert_unique" => {
                for j in 0..b {
                    let kk = K { a: k, j };
                    if hashed { s.insert_hashed_unique_unchecked(hm.hk(&kk)) } else { s.insert_unique_unchecked(kk) }
                }
            }
            "shift_remove" => {
                for j in 0..b {
                    let kk = K { a: k, j };
                    let r = if hashed { s.shift_remove_hashed(hm.hk(&kk).as_ref()) } else { s.shift_remove(&kk) };
                    ensure!(r == some, "set step {} shift_remove({}) = {}", n, k, r);
                }
            }
            "shift_remove_index" => {
                if !some {
                    ensure!(s.shift_remove_index((i * b) as usize).is_none(), "set shift_remove_index oob Some");
                } else {
                    for _ in 0..b {
                        let r = s.shift_remove_index((i * b) as usize);
                        ensure!(r.as_ref().map(|x| x.a) == Some(k), "set step {} shift_remove_index({}) = {:?}", n, i, r);
                    }
                }
            }
            "pop" => {
                if !some {
                    ensure!(s.pop().is_none(), "set pop on empty");
                } else {
                    for _ in 0..b {
                        let r = s.pop();
                        ensure!(r.as_ref().map(|x| x.a) == Some(k), "set step {} pop = {:?}", n, r);
                    }
                }
            }
            "reverse" => s.reverse(),
            "sort_keys" => s.sort(),
            "retain" => {
                let keep: BTreeSet<u32> = arr(st, "s").into_iter().collect();
                s.retain(|kk| keep.contains(&kk.a));
            }
            "clear" => s.clear(),
            "reserve" => s.reserve((i * b) as usize),
            "maybe_drop_index" | "get" => {}
            _ => return fail(format!("unknown op {}", op)),
        }
        let keys = arr(st, "keys");
        let real: Vec<K> = s.iter().cloned().collect();
        ensure!(real.len() == keys.len() * b as usize && s.len() == real.len(), "set step {} len {} expected {}", n, real.len(), keys.len());
        for (p, a) in keys.iter().enumerate() {
            ensure!(real[p * b as usize..(p + 1) * b as usize].iter().all(|x| x.a == *a), "set step {} order: block {} expected {}", n, p, a);
        }
        for a in 1..=nkeys {
            for j in 0..b {
                let kk = K { a, j };
                let pos = real.iter().position(|x| *x == kk);
                let (c, gi, g) = if hashed {
                    let h = hm.hk(&kk);
                    (s.contains_hashed(h.as_ref()), s.get_index_of_hashed(h.as_ref()), s.get_hashed(h.as_ref()).cloned())
                } else {
                    (s.contains(&kk), s.get_index_of(&kk), s.get(&kk).cloned())
                };
                ensure!(c == pos.is_some() && gi == pos && g == pos.map(|_| kk.clone()), "set step {} lookup {:?}: contains={} index_of={:?}, sequence says {:?}", n, kk, c, gi, pos);
            }
        }
        for (idx, x) in real.iter().enumerate() {
            ensure!(s.get_index(idx) == Some(x), "set step {} get_index({})", n, idx);
        }
        ensure!(s.first() == real.first() && s.last() == real.last(), "set first/last");
    }
    Ok(())
}

fn run_ordered_map(b: u32, steps: &[J], nkeys: u32) -> R<()> {
    let mut m: OrderedMap<K, u32> = OrderedMap::new();
    for (n, st) in steps.iter().enumerate() {
        let op = st["op"].as_str().unwrap_or("");
        let (k, v) = (u(st, "k"), u(st, "v"));
        let some = st["some"].as_bool().unwrap_or(false);
        let ret = u(st, "ret");
        match op {
            "insert" => {
                for j in 0..b {
                    let r = m.insert(K { a: k, j }, v);
                    ensure!(opt_eq(some, ret, r), "omap step {} insert = {:?}", n, r);
                }
            }
            "sort_keys" => m.sort_keys(),
            "get" => {}
            // OrderedMap offers no other mutators: rebuild from the expected contents of the
            // previous step is not possible without the model, so stop following this history.
            _ => return Ok(()),
        }
        let keys = arr(st, "keys");
        let vals = arr(st, "vals");
        let real: Vec<(K, u32)> = m.iter().map(|(k, v)| (k.clone(), *v)).collect();
        ensure!(real.len() == keys.len() * b as usize && m.len() == real.len(), "omap step {} len", n);
        for (p, a) in keys.iter().enumerate() {
            ensure!(real[p * b as usize..(p + 1) * b as usize].iter().all(|x| x.0.a == *a && x.1 == vals[p]), "omap step {} order/contents", n);
        }
        for a in 1..=nkeys {
            for j in 0..b {
                let kk = K { a, j };
                let pos = real.iter().position(|x| x.0 == kk);
                ensure!(m.get(&kk).copied() == pos.map(|p| real[p].1) && m.get_index_of(&kk) == pos && m.contains_key(&kk) == pos.is_some(), "omap step {} lookup {:?}", n, kk);
            }
        }
    }
    Ok(())
}


/// Containers that expose only part of the map interface (the two-vector backing store `Vec2`, the
/// unordered map / set, the ordered set, the sorted map / set / vec) follow the same history through
/// the operations they have; after every step their contents must be the model's sequence (as a
/// sequence where the container is ordered, as a sorted sequence otherwise).
fn run_others(b: u32, steps: &[J], nkeys: u32) -> R<()> {
    use starlark_map::ordered_set::OrderedSet;
    use starlark_map::sorted_map::SortedMap;
    use starlark_map::sorted_set::SortedSet;
    use starlark_map::sorted_vec::SortedVec;
    use starlark_map::unordered_map::UnorderedMap;
    use starlark_map::unordered_set::UnorderedSet;
    use starlark_map::vec2::Vec2;
    let mut v2: Vec2<K, u32> = Vec2::new();
    let mut um: UnorderedMap<K, u32> = UnorderedMap::new();
    let mut us: UnorderedSet<K> = UnorderedSet::new();
    let mut os: OrderedSet<K> = OrderedSet::new();
    for (n, st) in steps.iter().enumerate() {
        let op = st["op"].as_str().unwrap_or("");
        let (k, v, i) = (u(st, "k"), u(st, "v"), u(st, "i"));
        let some = st["some"].as_bool().unwrap_or(false);
        let pos_of = |v2: &Vec2<K, u32>, kk: &K| v2.iter().position(|(x, _)| x == kk);
        match op {
            "insert" | "entry_or_insert" => {
                for j in 0..b {
                    let kk = K { a: k, j };
                    match pos_of(&v2, &kk) {
                        Some(p) => {
                            if op == "insert" {
                                *v2.get_mut(p).unwrap().1 = v;
                            }
                        }
                        None => v2.push(kk.clone(), v),
                    }
                    if op == "insert" {
                        let was = um.insert(kk.clone(), v);
                        ensure!(was.is_some() == some, "umap step {} insert({}) returned {:?}", n, k, was);
                    } else if !um.contains_key(&kk) {
                        um.insert(kk.clone(), v);
                    }
                    let new_s = us.insert(kk.clone());
                    let new_o = os.insert(kk.clone());
                    ensure!(new_s == new_o, "uset/oset step {} insert({}) new: {} {}", n, k, new_s, new_o);
                    if op == "insert" {
                        ensure!(new_o == !some, "oset step {} insert({}) new={}", n, k, new_o);
                    }
                }
            }
            "insert_unique" => {
                for j in 0..b {
                    let kk = K { a: k, j };
                    v2.push(kk.clone(), v);
                    um.insert(kk.clone(), v);
                    us.insert(kk.clone());
                    os.insert_unique_unchecked(kk);
                }
            }
            "shift_remove" | "shift_remove_index" | "pop" => {
                // the model names the key that goes (k) whenever something is removed
                let gone = if op == "shift_remove" { true } else { some };
                if op == "pop" && some {
                    for _ in 0..b {
                        let r = v2.pop();
                        ensure!(r.as_ref().map(|x| x.0.a) == Some(k), "vec2 step {} pop = {:?}", n, r);
                    }
                } else if op == "shift_remove_index" && some {
                    for _ in 0..b {
                        let r = v2.remove((i * b) as usize);
                        ensure!(r.0.a == k, "vec2 step {} remove({}) = {:?}", n, i, r);
                    }
                } else if op == "shift_remove" {
                    for j in 0..b {
                        if let Some(p) = pos_of(&v2, &K { a: k, j }) {
                            v2.remove(p);
                        }
                    }
                } else if op == "pop" {
                    ensure!(v2.pop().is_none(), "vec2 pop on empty");
                }
                if gone {
                    for j in 0..b {
                        let kk = K { a: k, j };
                        let r = um.remove(&kk);
                        ensure!(r.is_some() == some, "umap step {} remove({}) = {:?}", n, k, r);
                        let t = os.take(&kk);
                        ensure!(t.is_some() == some, "oset step {} take({}) = {:?}", n, k, t);
                        match us.raw_entry_mut().from_entry(&kk) {
                            starlark_map::unordered_set::RawEntryMut::Occupied(e) => {
                                ensure!(some, "uset step {}: {} present", n, k);
                                e.remove();
                            }
                            starlark_map::unordered_set::RawEntryMut::Vacant(_) => ensure!(!some, "uset step {}: {} absent", n, k),
                        }
                    }
                }
            }
            "reverse" => {
                let mut all: Vec<(K, u32)> = v2.iter().map(|(a, b)| (a.clone(), *b)).collect();
                all.reverse();
                v2 = all.into_iter().collect();
                os.reverse();
            }
            "sort_keys" => {
                v2.sort_by(|x, y| x.0.cmp(y.0));
                os.sort();
            }
            "retain" => {
                let keep: BTreeSet<u32> = arr(st, "s").into_iter().collect();
                v2.retain(|kk, _| keep.contains(&kk.a));
                um.retain(|kk, _| keep.contains(&kk.a));
                let drop: Vec<K> = os.iter().filter(|kk| !keep.contains(&kk.a)).cloned().collect();
                for kk in drop {
                    os.take(&kk);
                    if let starlark_map::unordered_set::RawEntryMut::Occupied(e) = us.raw_entry_mut().from_entry(&kk) {
                        e.remove();
                    }
                }
            }
            "clear" => {
                v2.clear();
                um.clear();
                us.clear();
                os.clear();
            }
            "reserve" => v2.reserve((i * b) as usize),
            "maybe_drop_index" | "get" => {}
            _ => return fail(format!("unknown op {}", op)),
        }
        // the model's sequence, expanded to blocks
        let keys = arr(st, "keys");
        let vals = arr(st, "vals");
        let real: Vec<(K, u32)> = v2.iter().map(|(a, b)| (a.clone(), *b)).collect();
        ensure!(real.len() == keys.len() * b as usize && v2.len() == real.len() && v2.is_empty() == real.is_empty(), "vec2 step {} len {}", n, real.len());
        for (p, a) in keys.iter().enumerate() {
            ensure!(real[p * b as usize..(p + 1) * b as usize].iter().all(|x| x.0.a == *a && x.1 == vals[p]), "vec2 step {} ({}) order/contents: block {} expected {}={} got {:?}", n, op, p, a, vals[p], &real[p * b as usize..(p + 1) * b as usize]);
        }
        for (idx, x) in real.iter().enumerate() {
            ensure!(v2.get(idx) == Some((&x.0, &x.1)), "vec2 step {} get({})", n, idx);
        }
        ensure!(v2.get(real.len()).is_none(), "vec2 get past the end");
        ensure!(v2.first() == real.first().map(|x| (&x.0, &x.1)) && v2.last() == real.last().map(|x| (&x.0, &x.1)), "vec2 first/last");
        let cl = v2.clone();
        ensure!(cl == v2 && cl.iter().count() == real.len(), "vec2 clone differs");
        if real.len() >= 2 {
            let mut t = v2.clone();
            t.truncate(real.len() - 1);
            ensure!(t.len() == real.len() - 1 && t.last() == Some((&real[real.len() - 2].0, &real[real.len() - 2].1)), "vec2 truncate");
            t.shrink_to_fit();
            ensure!(t.iter().map(|(a, b)| (a.clone(), *b)).collect::<Vec<_>>() == real[..real.len() - 1].to_vec(), "vec2 shrink_to_fit changed contents");
        }
        // ordered set: the same order
        let oreal: Vec<K> = os.iter().cloned().collect();
        ensure!(oreal.len() == real.len() && os.len() == real.len(), "oset step {} len {} expected {}", n, oreal.len(), real.len());
        for (p, a) in keys.iter().enumerate() {
            ensure!(oreal[p * b as usize..(p + 1) * b as usize].iter().all(|x| x.a == *a), "oset step {} ({}) order: block {} expected {}", n, op, p, a);
        }
        for (idx, x) in oreal.iter().enumerate() {
            ensure!(os.get_index(idx) == Some(x) && os.get_index_of(x) == Some(idx), "oset step {} index {}", n, idx);
        }
        ensure!(os.first() == oreal.first() && os.last() == oreal.last(), "oset first/last");
        // unordered and sorted containers: the sorted sequence
        let mut sorted: Vec<(K, u32)> = real.clone();
        sorted.sort();
        let ue: Vec<(K, u32)> = um.entries_sorted().into_iter().map(|(a, b)| (a.clone(), *b)).collect();
        ensure!(ue == sorted && um.len() == sorted.len(), "umap step {} ({}) contents {:?} expected {:?}", n, op, ue.len(), sorted.len());
        let use_: Vec<K> = us.entries_sorted().into_iter().cloned().collect();
        ensure!(use_ == sorted.iter().map(|x| x.0.clone()).collect::<Vec<_>>() && us.len() == sorted.len(), "uset step {} ({}) contents", n, op);
        let sm: SortedMap<K, u32> = real.iter().cloned().collect();
        ensure!(sm.iter().map(|(a, b)| (a.clone(), *b)).collect::<Vec<_>>() == sorted && sm.len() == sorted.len(), "sorted map step {} order", n);
        let ss: SortedSet<K> = real.iter().map(|x| x.0.clone()).collect();
        ensure!(ss.iter().cloned().collect::<Vec<_>>() == sorted.iter().map(|x| x.0.clone()).collect::<Vec<_>>(), "sorted set step {} order", n);
        let sv: SortedVec<K> = real.iter().map(|x| x.0.clone()).collect();
        ensure!(sv.iter().cloned().collect::<Vec<_>>() == ss.iter().cloned().collect::<Vec<_>>(), "sorted vec step {} order", n);
        let ss2: SortedSet<K> = SortedSet::from(os.clone());
        ensure!(ss2.iter().cloned().collect::<Vec<_>>() == ss.iter().cloned().collect::<Vec<_>>(), "sorted set from ordered set");
        for a in 1..=nkeys {
            for j in 0..b {
                let kk = K { a, j };
                let exp = real.iter().find(|x| x.0 == kk).map(|x| x.1);
                ensure!(um.get(&kk).copied() == exp && um.contains_key(&kk) == exp.is_some(), "umap step {} lookup {:?}", n, kk);
                ensure!(us.contains(&kk) == exp.is_some() && os.contains(&kk) == exp.is_some() && os.get(&kk).is_some() == exp.is_some(), "set step {} lookup {:?}", n, kk);
                ensure!(sm.get(&kk).copied() == exp && sm.contains_key(&kk) == exp.is_some() && ss.contains(&kk) == exp.is_some(), "sorted step {} lookup {:?}", n, kk);
                if let Some(p) = sorted.iter().position(|x| x.0 == kk) {
                    ensure!(ss.get_index(p) == Some(&kk), "sorted set get_index({})", p);
                }
            }
        }
    }
    Ok(())
}

pub fn replay(rest: &[String]) -> anyhow::Result<()> {
    let cases = util::read_ndjson(&rest[0])?;
    let mut out = util::NdWriter::create(&rest[1])?;
    for c in &cases {
        let id = c["id"].clone();
        let b = u(c, "block").max(1);
        let nkeys = u(c, "nkeys").max(1);
        let class: Vec<u32> = arr(c, "hash");
        let steps: Vec<J> = c["steps"].as_array().cloned().unwrap_or_default();
        let mut res = json!({"id": id, "ok": true, "presence_mismatch": 0});
        let mut presence = 0u64;
        'modes: for (mname, hm) in [("class", HashMode::Class(class.clone())), ("natural", HashMode::Natural)] {
            // SmallMap
            let r = util::catch(|| -> R<u64> {
                let mut m: SmallMap<K, u32> = SmallMap::new();
                let mut pm = 0;
                for (n, st) in steps.iter().enumerate() {
                    step_small_map(&mut m, &hm, b, st).map_err(|f| Fail { what: format!("step {}: {}", n, f.what) })?;
                    let on = check_small_map(&m, &hm, b, &arr(st, "keys"), &arr(st, "vals"), nkeys)
                        .map_err(|f| Fail { what: format!("after step {} ({}): {}", n, st["op"], f.what) })?;
                    if on != st["on"].as_bool().unwrap_or(false) {
                        pm += 1;
                    }
                }
                Ok(pm)
            });
            match r {
                Ok(Ok(pm)) => presence += pm,
                Ok(Err(f)) => {
                    res = json!({"id": id, "ok": false, "target": "SmallMap", "mode": mname, "what": f.what});
                    break 'modes;
                }
                Err(p) => {
                    res = json!({"id": id, "ok": false, "target": "SmallMap", "mode": mname, "what": format!("panic: {}", p)});
                    break 'modes;
                }
            }
            let r = util::catch(|| run_small_set(&hm, b, &steps, nkeys));
            match r {
                Ok(Ok(())) => {}
                Ok(Err(f)) => {
                    res = json!({"id": id, "ok": false, "target": "SmallSet", "mode": mname, "what": f.what});
                    break 'modes;
                }
                Err(p) => {
                    res = json!({"id": id, "ok": false, "target": "SmallSet", "mode": mname, "what": format!("panic: {}", p)});
                    break 'modes;
                }
            }
        }
        if res["ok"] == json!(true) {
            match util::catch(|| run_ordered_map(b, &steps, nkeys)) {
                Ok(Ok(())) => {}
                Ok(Err(f)) => res = json!({"id": id, "ok": false, "target": "OrderedMap", "mode": "natural", "what": f.what}),
                Err(p) => res = json!({"id": id, "ok": false, "target": "OrderedMap", "mode": "natural", "what": format!("panic: {}", p)}),
            }
        }
        if res["ok"] == json!(true) {
            match util::catch(|| run_others(b, &steps, nkeys)) {
                Ok(Ok(())) => {}
                Ok(Err(f)) => res = json!({"id": id, "ok": false, "target": "Vec2/Unordered/OrderedSet/Sorted", "mode": "natural", "what": f.what}),
                Err(p) => res = json!({"id": id, "ok": false, "target": "Vec2/Unordered/OrderedSet/Sorted", "mode": "natural", "what": format!("panic: {}", p)}),
            }
        }
        if res["ok"] == json!(true) {
            res["presence_mismatch"] = json!(presence);
        }
        out.write(&res)?;
    }
    out.finish()
}

/// V: random histories on the real SmallMap with the real threshold; one event per model action.
pub fn record(rest: &[String]) -> anyhow::Result<()> {
    let mut out = util::NdWriter::create(&rest[0])?;
    let seed = util::opt_u64(rest, "--seed", 1);
    let n = util::opt_u64(rest, "--n", 2000);
    let runs = util::opt_u64(rest, "--runs", 4);
    let nkeys = util::opt_u64(rest, "--keys", 20) as u32;
    let classes = util::opt_u64(rest, "--classes", 3) as u32;
    let class: Vec<u32> = (1..=nkeys).map(|a| a % classes).collect();
    let hm = HashMode::Class(class);
    let mut rng = util::Rng(seed.wrapping_mul(0x1234567) ^ 0xabcdef);
    for run in 0..runs {
        out.write(&json!({"a": "reset", "run": run}))?;
        let mut m: SmallMap<K, u32> = SmallMap::new();
        // alternate growth and shrink phases so that 16 entries is crossed repeatedly
        let mut grow = true;
        for _ in 0..n {
            if m.len() >= 19 {
                grow = false;
            }
            if m.len() <= 12 && !grow && rng.chance(1, 3) {
                grow = true;
            }
            let k = 1 + rng.below(nkeys as u64) as u32;
            let v = 1 + rng.below(3) as u32;
            let kk = K { a: k, j: 0 };
            let w = rng.below(100);
            let mut ev = json!({"k": 0, "v": 0, "i": 0, "s": [], "some": false, "ret": 0});
            let panicked = util::catch(|| {
                if (grow && w < 55) || (!grow && w < 15) {
                    let r = m.insert_hashed(hm.hk(&kk), v);
                    ev["a"] = json!("insert");
                    ev["k"] = json!(k);
                    ev["v"] = json!(v);
                    ev["some"] = json!(r.is_some());
                    ev["ret"] = json!(r.unwrap_or(0));
                } else if w < 60 {
                    let r = *match m.entry_hashed(hm.hk(&kk)) {
                        Entry::Occupied(e) => e.into_mut(),
                        Entry::Vacant(e) => e.insert(v),
                    };
                    ev["a"] = json!("entry_or_insert");
                    ev["k"] = json!(k);
                    ev["v"] = json!(v);
                    ev["some"] = json!(true);
                    ev["ret"] = json!(r);
                } else if w < 72 {
                    let r = m.shift_remove_hashed(hm.hk(&kk).as_ref());
                    ev["a"] = json!("shift_remove");
                    ev["k"] = json!(k);
                    ev["some"] = json!(r.is_some());
                    ev["ret"] = json!(r.unwrap_or(0));
                } else if w < 80 {
                    let i = rng.below(m.len() as u64 + 1) as usize;
                    let r = m.shift_remove_index(i);
                    ev["a"] = json!("shift_remove_index");
                    ev["i"] = json!(i);
                    ev["some"] = json!(r.is_some());
                    if let Some((rk, rv)) = r {
                        ev["k"] = json!(rk.a);
                        ev["ret"] = json!(rv);
                    }
                } else if w < 86 {
                    let r = m.pop();
                    ev["a"] = json!("pop");
                    ev["some"] = json!(r.is_some());
                    if let Some((rk, rv)) = r {
                        ev["k"] = json!(rk.a);
                        ev["ret"] = json!(rv);
                    }
                } else if w < 89 {
                    m.reverse();
                    ev["a"] = json!("reverse");
                } else if w < 92 {
                    m.sort_keys();
                    ev["a"] = json!("sort_keys");
                } else if w < 95 {
                    // drop roughly a quarter
                    let drop: BTreeSet<u32> = (1..=nkeys).filter(|_| rng.chance(1, 4)).collect();
                    let keep: Vec<u32> = (1..=nkeys).filter(|a| !drop.contains(a)).collect();
                    m.retain(|kk, _| !drop.contains(&kk.a));
                    ev["a"] = json!("retain");
                    ev["s"] = json!(keep);
                } else if w < 96 {
                    if rng.chance(1, 4) {
                        m.clear();
                        ev["a"] = json!("clear");
                    } else {
                        m.maybe_drop_index();
                        ev["a"] = json!("maybe_drop_index");
                    }
                } else if w < 98 {
                    let add = rng.below(8) as usize;
                    m.reserve(add);
                    ev["a"] = json!("reserve");
                    ev["i"] = json!(add);
                } else {
                    m.maybe_drop_index();
                    ev["a"] = json!("maybe_drop_index");
                }
            });
            if let Err(p) = panicked {
                ev["a"] = json!("panic");
                ev["what"] = json!(p);
                out.write(&ev)?;
                break;
            }
            let observed = util::catch(|| {
                ev["keys"] = json!(m.keys().map(|k| k.a).collect::<Vec<_>>());
                ev["vals"] = json!(m.values().copied().collect::<Vec<_>>());
                let snap = m.verif_index_snapshot();
                ev["on"] = json!(snap.is_some());
                let iok = match &snap {
                    None => true,
                    Some((n, v)) => *n == m.len() && v.iter().enumerate().all(|(i, p)| *p == i as i64),
                };
                ev["iok"] = json!(iok);
                // lookups through the real (possibly indexed) path for every key
                let mut look = Vec::new();
                for a in 1..=nkeys {
                    let h = hm.hk(&K { a, j: 0 });
                    look.push(m.get_index_of_hashed(h.as_ref()).map(|x| x as i64 + 1).unwrap_or(0));
                }
                ev["look"] = json!(look);
            });
            if let Err(p) = observed {
                ev["a"] = json!("panic");
                ev["what"] = json!(p);
                out.write(&ev)?;
                break;
            }
            out.write(&ev)?;
        }
    }
    out.finish()
}

//! C07 (ii): every builtin function and method x argument tuples from a value catalogue.
//! Oracle (Trace_Session.tla, NativeCall): value or located error; never panic / abort / hang;
//! evaluator usable afterwards (empty call stack, probe evaluation unchanged).

use std::sync::atomic::AtomicU64;
use std::sync::atomic::Ordering;
use std::sync::Arc;

use serde_json::json;
use serde_json::Value as J;
use starlark::environment::Module;
use starlark::eval::Evaluator;
use starlark::syntax::AstModule;

use super::sem::run;
use crate::util;

/// The catalogue: name -> defining source (one statement each, evaluated at module level).
pub fn catalogue() -> Vec<(&'static str, &'static str)> {
    vec![
        ("c_none", "c_none = None"),
        ("c_true", "c_true = True"),
        ("c_false", "c_false = False"),
        ("c_0", "c_0 = 0"),
        ("c_1", "c_1 = 1"),
        ("c_m1", "c_m1 = -1"),
        ("c_i31", "c_i31 = 2147483647"),
        ("c_mi31", "c_mi31 = -2147483648"),
        ("c_p31", "c_p31 = 2147483648"),
        ("c_i63", "c_i63 = 9223372036854775807"),
        ("c_mi63", "c_mi63 = -9223372036854775808"),
        ("c_p64", "c_p64 = 18446744073709551616"),
        ("c_big", "c_big = 10000000000000000000000000000000000000000"),
        ("c_mill", "c_mill = 1000000"),
        ("c_f0", "c_f0 = 0.0"),
        ("c_f", "c_f = 1.5"),
        ("c_nan", "c_nan = float(\"nan\")"),
        ("c_inf", "c_inf = float(\"inf\")"),
        ("c_es", "c_es = \"\""),
        ("c_s", "c_s = \"abc\""),
        ("c_uni", "c_uni = \"h\\u00e9\\U0001d11ez\""),
        ("c_fmt", "c_fmt = \"{} %s {0} %d\""),
        ("c_el", "c_el = []"),
        ("c_l", "c_l = [1, \"a\", None]"),
        ("c_nest", "c_nest = [[1, 2], [3, [4, [5]]]]"),
        ("c_self", "c_self = [1]\nc_self.append(c_self)"),
        ("c_et", "c_et = ()"),
        ("c_t", "c_t = (1, \"b\")"),
        ("c_ed", "c_ed = {}"),
        ("c_d", "c_d = {\"a\": 1, 2: [3]}"),
        ("c_selfd", "c_selfd = {}\nc_selfd[\"me\"] = c_selfd"),
        ("c_wrapd", "c_wrapd = [c_d]"),
        ("c_wrapl", "c_wrapl = [c_l, c_self]"),
        ("c_pairs", "c_pairs = [(1, c_d), (\"k\", c_selfd)]"),
        ("c_r", "c_r = range(3)"),
        ("c_fn", "def c_fn(x, y = 2): return x"),
        ("c_lam", "c_lam = lambda: 1"),
        ("c_bi", "c_bi = len"),
        ("c_st", "c_st = struct(a = 1, b = [2])"),
        ("c_set", "c_set = set([1, 2])"),
    ]
}

const OPS2: &[&str] = &["+", "-", "*", "/", "//", "%", "&", "|", "^", "<<", ">>", "<", ">=", "==", "!=", "in", "not in", "and", "or", "index"];
const OPS1: &[&str] = &["-", "+", "~", "not"];
const SKIP_GLOBALS: &[&str] = &["breakpoint", "print", "pprint", "debug", "emit"];

fn eval_one<'v>(eval: &mut Evaluator<'v, '_, '_>, globals: &starlark::environment::Globals, src: &str) -> (String, bool, String) {
    let n_lines = src.lines().count() as u64;
    let r = util::catch(std::panic::AssertUnwindSafe(|| {
        let ast = AstModule::parse("call.star", src.to_owned(), &run::dialect())?;
        eval.eval_module(ast, globals).map(|_| ())
    }));
    match r {
        Ok(Ok(())) => ("value".to_owned(), true, String::new()),
        Ok(Err(e)) => {
            let (_, line, msg) = run::err_of(&e);
            let in_file = e.span().map(|s| s.filename() == "call.star").unwrap_or(false);
            ("error".to_owned(), in_file && line >= 1 && line <= n_lines.max(1), msg)
        }
        Err(p) => ("panic".to_owned(), false, p),
    }
}

/// vh record natcat <out.ndjson> --seed S --pairs PCT [--progress FILE]
pub fn record(rest: &[String]) -> anyhow::Result<()> {
    let mut out = util::NdWriter::create(&rest[0])?;
    let seed = util::opt_u64(rest, "--seed", 1);
    let pairs_pct = util::opt_u64(rest, "--pairs", 10);
    let triples = util::opt_u64(rest, "--triples", 2000);
    let progress = util::opt(rest, "--progress").map(|s| s.to_owned());
    let skip = util::opt_u64(rest, "--skip", 0) as usize;
    let globals = run::globals();
    let cat = catalogue();
    let mut rng = util::Rng(seed ^ 0x5151);
    // watchdog: a call is a hang when it has consumed 60 s of CPU time of this process without
    // returning (CPU time, not wall clock: the box may be heavily loaded), or made no progress
    // for 15 minutes of wall clock (a sleeping deadlock) -> abort the process
    let beat = Arc::new(AtomicU64::new(0));
    {
        let beat = beat.clone();
        std::thread::spawn(move || {
            fn cpu_ticks() -> u64 {
                // utime + stime of /proc/self/stat (fields 14 and 15), in clock ticks (100 Hz)
                let s = std::fs::read_to_string("/proc/self/stat").unwrap_or_default();
                let rest = s.rsplit(')').next().unwrap_or("");
                let f: Vec<&str> = rest.split_whitespace().collect();
                let g = |i: usize| f.get(i).and_then(|x| x.parse::<u64>().ok()).unwrap_or(0);
                g(11) + g(12)
            }
            let mut last = 0;
            let mut cpu0 = cpu_ticks();
            let mut t0 = std::time::Instant::now();
            loop {
                std::thread::sleep(std::time::Duration::from_secs(2));
                let b = beat.load(Ordering::Relaxed);
                if b == last {
                    if cpu_ticks().saturating_sub(cpu0) >= 6000 || t0.elapsed().as_secs() >= 900 {
                        eprintln!("watchdog: call hangs");
                        std::process::exit(97);
                    }
                } else {
                    last = b;
                    cpu0 = cpu_ticks();
                    t0 = std::time::Instant::now();
                }
            }
        });
    }
    // targets and the list of calls are computed once, on a scratch module
    let mut calls: Vec<(String, Vec<&'static str>, Option<&'static str>)> = Vec::new();
    let names: Vec<&'static str> = cat.iter().map(|c| c.0).collect();
    Module::with_temp_heap(|module| -> anyhow::Result<()> {
        let mut eval = Evaluator::new(&module);
        for (_, src) in &cat {
            let (r, _, msg) = eval_one(&mut eval, &globals, src);
            if r != "value" {
                anyhow::bail!("catalogue statement failed: {} ({})", src, msg);
            }
        }
        let mut targets: Vec<String> = Vec::new();
        let mut gnames: Vec<String> = globals.names().map(|s| s.as_str().to_owned()).collect();
        gnames.sort();
        for g in gnames {
            if !SKIP_GLOBALS.contains(&g.as_str()) {
                targets.push(g);
            }
        }
        for (name, _) in &cat {
            let v = module.get(name).unwrap();
            let mut attrs = v.dir_attr();
            attrs.sort();
            for a in attrs {
                targets.push(format!("{}.{}", name, a));
            }
        }
        for t in &targets {
            calls.push((t.clone(), vec![], None));
            for a in &names {
                calls.push((t.clone(), vec![*a], None));
            }
            for a in &names {
                for b in &names {
                    if rng.below(100) < pairs_pct {
                        calls.push((t.clone(), vec![*a, *b], None));
                    }
                }
            }
        }
        // operators: every binary operator x every pair of catalogue values, indexing, the unary
        // operators; slices with random bounds.  A repetition whose RESULT would need tens of
        // gigabytes of memory (a non-empty list or tuple x 2^31 and more) is left out: it does not
        // end in any reasonable time, which is not what this check is about; strings are kept
        // (the result must be refused, not attempted).
        let huge = ["c_i31", "c_p31", "c_i63", "c_p64", "c_big", "c_inf"];
        let seqs = ["c_l", "c_el", "c_nest", "c_self", "c_t", "c_et", "c_wrapd", "c_wrapl", "c_pairs"]; // (c_el does not stay empty: earlier calls append to it)
        for op in OPS2 {
            for a in &names {
                for b in &names {
                    // (the lists grow while the catalogue is used, so the million is left out for them too)
                    let mill = |x: &str, y: &str| x == "c_mill" && seqs.contains(&y);
                    let hog = (*op == "*" && ((huge.contains(a) && seqs.contains(b)) || (huge.contains(b) && seqs.contains(a)) || mill(a, b) || mill(b, a)))
                        || (*op == "<<" && huge.contains(b));
                    if !hog {
                        calls.push((format!("op:{}", op), vec![*a, *b], None));
                    }
                }
            }
        }
        for op in OPS1 {
            for a in &names {
                calls.push((format!("op:{}", op), vec![*a], None));
            }
        }
        for _ in 0..(triples / 2) {
            let a = names[rng.below(names.len() as u64) as usize];
            let b = names[rng.below(names.len() as u64) as usize];
            let c = names[rng.below(names.len() as u64) as usize];
            let d = names[rng.below(names.len() as u64) as usize];
            calls.push((format!("op:{}", ["slice2", "slice3", "if"][rng.below(3) as usize]), vec![a, b, c, d], None));
        }
        for _ in 0..triples {
            let t = targets[rng.below(targets.len() as u64) as usize].clone();
            let a = names[rng.below(names.len() as u64) as usize];
            let b = names[rng.below(names.len() as u64) as usize];
            let c = names[rng.below(names.len() as u64) as usize];
            if rng.chance(1, 2) {
                calls.push((t, vec![a, b, c], None));
            } else {
                let kw = ["key", "reverse", "start", "default", "x", "sep", "end", "zz"][rng.below(8) as usize];
                calls.push((t, vec![a, b], Some(kw)));
            }
        }
        Ok(())
    })?;
    // run them; after a panic the evaluator is abandoned (its state is not specified any more)
    // and a fresh module + evaluator continue with the next call
    let mut idx = skip;
    while idx < calls.len() {
        Module::with_temp_heap(|module| -> anyhow::Result<()> {
            let mut eval = Evaluator::new(&module);
            for (_, src) in &cat {
                eval_one(&mut eval, &globals, src);
            }
            eval_one(&mut eval, &globals, "def probe(n):\n    return [n, n + 1]\n");
            while idx < calls.len() {
                let (target, args, kw) = &calls[idx];
                idx += 1;
                beat.fetch_add(1, Ordering::Relaxed);
                let mut a: Vec<String> = args.iter().map(|s| s.to_string()).collect();
                if let Some(k) = kw {
                    a.push(format!("{} = {}", k, args.first().copied().unwrap_or("c_0")));
                }
                let src = match target.strip_prefix("op:") {
                    None => format!("{}({})\n", target, a.join(", ")),
                    Some("index") => format!("{}[{}]\n", a[0], a[1]),
                    Some("slice2") => format!("{}[{}:{}]\n", a[0], a[1], a[2]),
                    Some("slice3") => format!("{}[{}:{}:{}]\n", a[0], a[1], a[2], a[3]),
                    Some("if") => format!("{} if {} else {}\n", a[0], a[1], a[2]),
                    Some(op) if a.len() == 1 => format!("{} {}\n", op, a[0]),
                    Some(op) => format!("{} {} {}\n", a[0], op, a[1]),
                };
                if let Some(p) = &progress {
                    std::fs::write(p, format!("{}\t{}", idx, src))?;
                }
                let (res, span_ok, msg) = eval_one(&mut eval, &globals, &src);
                let stack = util::catch(std::panic::AssertUnwindSafe(|| eval.call_stack_count())).unwrap_or(99);
                let probe_ok = if res == "error" || idx % 25 == 0 {
                    run::OUT.with(|o| o.borrow_mut().clear());
                    let (r, _, _) = eval_one(&mut eval, &globals, "emit(probe(3))\n");
                    let o = run::OUT.with(|o| std::mem::take(&mut *o.borrow_mut()));
                    r == "value" && o == vec![json!({"t": "list", "v": [{"t": "int", "v": 3}, {"t": "int", "v": 4}]})]
                } else {
                    true
                };
                let method = target.rsplit('.').next().unwrap_or("").to_owned();
                let mut ev = json!({"a": "ncall", "id": format!("n{}", idx), "src": src.trim_end(), "target": method, "res": res,
                    "span_ok": span_ok, "stack": if res == "panic" { 0 } else { stack }, "probe_ok": probe_ok});
                if res == "panic" || !probe_ok || (res == "error" && !span_ok) {
                    ev["msg"] = json!(msg);
                }
                out.write(&ev)?;
                if res == "panic" {
                    break;
                }
            }
            Ok(())
        })?;
    }
    out.finish()
}

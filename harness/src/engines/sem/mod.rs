//! The `Sem` engines: programs as JSON ASTs, printed to source, run on the real evaluator,
//! recorded for Trace_Sem.tla (V), or replayed from TLC-generated cases (G).

pub mod gen;
pub mod print;
pub mod run;

use serde_json::json;
use serde_json::Value as J;

use crate::util;

fn is_static(kind: &str, msg: &str) -> bool {
    kind == "parse"
        || (msg.starts_with("Variable `") && msg.contains("not found"))
        || msg.contains("Dictionary key repeated")
}

/// Run one AST: prints it (assigning lines), evaluates, returns the trace record.
pub fn run_ast(id: &str, mut ast: J, globals: &starlark::environment::Globals) -> (J, bool) {
    let src = print::module(&mut ast);
    let o = match util::catch(|| run::run_source(&src, globals)) {
        Ok(o) => o,
        Err(p) => run::Outcome { out: vec![], kind: "panic".to_owned(), line: 0, msg: p, parse_error: false },
    };
    let stat = is_static(&o.kind, &o.msg);
    (
        json!({"id": id, "ast": ast, "out": o.out, "err": {"kind": o.kind, "line": o.line}, "msg": o.msg, "src": src}),
        stat,
    )
}

/// vh record sem <out.ndjson> --seed S --n N [--stmts K]
pub fn record(rest: &[String]) -> anyhow::Result<()> {
    let mut out = util::NdWriter::create(&rest[0])?;
    let seed = util::opt_u64(rest, "--seed", 1);
    let n = util::opt_u64(rest, "--n", 100);
    let stmts = util::opt_u64(rest, "--stmts", 8) as usize;
    let globals = run::globals();
    let mut statics = 0;
    let mut kinds: std::collections::BTreeMap<String, u64> = Default::default();
    for i in 0..n {
        let mut rng = util::Rng(seed.wrapping_mul(1_000_003).wrapping_add(i));
        let wrap = rng.chance(1, 2);
        let k = 3 + rng.below(stmts as u64) as usize;
        let ast = {
            let mut g = gen::Gen::new(&mut rng);
            g.module(k, wrap)
        };
        let (rec, stat) = run_ast(&format!("s{}p{}", seed, i), ast, &globals);
        if stat {
            statics += 1;
            continue;
        }
        *kinds.entry(rec["err"]["kind"].as_str().unwrap_or("").to_owned()).or_insert(0) += 1;
        out.write(&rec)?;
    }
    out.finish()?;
    println!("{}", json!({"programs": n, "static_rejected": statics, "kinds": kinds}));
    Ok(())
}

/// vh replay sem <cases.ndjson> <out.ndjson>: each case {"id", "ast"}; output = trace records.
pub fn replay(rest: &[String]) -> anyhow::Result<()> {
    let cases = util::read_ndjson(&rest[0])?;
    let mut out = util::NdWriter::create(&rest[1])?;
    let globals = run::globals();
    for c in cases {
        let (rec, stat) = run_ast(c["id"].as_str().unwrap_or("?"), c["ast"].clone(), &globals);
        let mut rec = rec;
        rec["static"] = json!(stat);
        out.write(&rec)?;
    }
    out.finish()
}

/// vh runsrc sem - : read source text from stdin, run it, print {out, err, msg}
pub fn runsrc(_rest: &[String]) -> anyhow::Result<()> {
    use std::io::Read;
    let mut src = String::new();
    std::io::stdin().read_to_string(&mut src)?;
    let globals = run::globals();
    let o = match util::catch(|| run::run_source(&src, &globals)) {
        Ok(o) => o,
        Err(p) => run::Outcome { out: vec![], kind: "panic".to_owned(), line: 0, msg: p, parse_error: false },
    };
    println!("{}", json!({"out": o.out, "err": {"kind": o.kind, "line": o.line}, "msg": o.msg}));
    Ok(())
}

/// Run a session: several chunks evaluated one after another on the same Module + Evaluator.
/// Returns per chunk: transcript, error kind/line/message, call-stack depth afterwards and the
/// balance of iteration-lock hook events (starts - stops) during the chunk.
pub fn run_session(chunks: &mut [J], globals: &starlark::environment::Globals, gc: Option<starlark::verif::GcMode>) -> Vec<J> {
    use starlark::environment::Module;
    use starlark::eval::Evaluator;
    use starlark::syntax::AstModule;
    let mut res = Vec::new();
    Module::with_temp_heap(|module| {
        let mut eval = Evaluator::new(&module);
        if let Some(g) = gc.clone() {
            starlark::verif::set_gc_mode(g);
        }
        for ch in chunks.iter_mut() {
            let src = print::module(ch);
            run::OUT.with(|o| o.borrow_mut().clear());
            starlark::verif::start_recording();
            let r = util::catch(std::panic::AssertUnwindSafe(|| {
                let ast = AstModule::parse("chunk.star", src.clone(), &run::dialect())?;
                eval.eval_module(ast, globals).map(|_| ())
            }));
            let evs = starlark::verif::take_events();
            let mut locks: i64 = 0;
            let mut pushes: i64 = 0;
            for e in &evs {
                match e.a {
                    "iter_start" => locks += 1,
                    "iter_stop" => locks -= 1,
                    "push" => pushes += 1,
                    "pop" => pushes -= 1,
                    _ => {}
                }
            }
            let out = run::OUT.with(|o| std::mem::take(&mut *o.borrow_mut()));
            let (kind, line, msg) = match r {
                Ok(Ok(())) => (String::new(), 0, String::new()),
                Ok(Err(e)) => run::err_of(&e),
                Err(p) => ("panic".to_owned(), 0, p),
            };
            let stack = util::catch(std::panic::AssertUnwindSafe(|| eval.call_stack_count())).unwrap_or(usize::MAX);
            res.push(json!({"out": out, "kind": kind, "line": line, "msg": msg, "stack": stack, "locks": locks, "pushes": pushes, "src": src}));
        }
        starlark::verif::set_gc_mode(starlark::verif::GcMode::Default);
    });
    res
}

/// vh replay sess <cases.ndjson> <out.ndjson>: case {"id","chunks":[ast...]}
pub fn replay_sessions(rest: &[String]) -> anyhow::Result<()> {
    let cases = util::read_ndjson(&rest[0])?;
    let mut out = util::NdWriter::create(&rest[1])?;
    let globals = run::globals();
    for c in cases {
        let mut chunks: Vec<J> = c["chunks"].as_array().cloned().unwrap_or_default();
        let res = match util::catch(std::panic::AssertUnwindSafe(|| run_session(&mut chunks, &globals, None))) {
            Ok(r) => json!({"id": c["id"], "res": r, "status": "ok"}),
            Err(p) => json!({"id": c["id"], "res": [], "status": "panic", "what": p}),
        };
        out.write(&res)?;
    }
    out.finish()
}

/// vh replay lim <cases.ndjson> <out.ndjson>: case {"id","class":{cap,budget,cancel},"prog":ast}
/// Runs the program under a call-stack cap, a tick budget and a cancellation point (the flag is
/// seen by the first periodic check at or after tick `cancel`), then a probe evaluation on the
/// same evaluator; everything twice (tick counts must repeat).
pub fn replay_limits(rest: &[String]) -> anyhow::Result<()> {
    use starlark::environment::Module;
    use starlark::eval::Evaluator;
    use starlark::syntax::AstModule;
    let cases = util::read_ndjson(&rest[0])?;
    let mut out = util::NdWriter::create(&rest[1])?;
    let globals = run::globals();
    for c in cases {
        let cap = c["class"]["cap"].as_u64().unwrap_or(50) as usize;
        let budget = c["class"]["budget"].as_u64().unwrap_or(0);
        let cancel = c["class"]["cancel"].as_u64().unwrap_or(0);
        let mut prog = c["prog"].clone();
        let src = print::module(&mut prog);
        let mut runs = Vec::new();
        for _ in 0..2 {
            let r = util::catch(std::panic::AssertUnwindSafe(|| {
                Module::with_temp_heap(|module| {
                    let mut eval = Evaluator::new(&module);
                    eval.set_max_callstack_size(cap).unwrap();
                    if budget > 0 {
                        eval.set_max_tick_count(budget).unwrap();
                    }
                    starlark::verif::set_total_ticks(0);
                    if cancel > 0 {
                        // the flag is "raised at tick `cancel`": a check sees it iff the total is >= cancel
                        eval.set_check_cancelled(Box::new(move || starlark::verif::total_ticks() >= cancel));
                    }
                    let mut one = |src: &str, eval: &mut Evaluator| -> J {
                        run::OUT.with(|o| o.borrow_mut().clear());
                        let r = util::catch(std::panic::AssertUnwindSafe(|| {
                            let ast = AstModule::parse("lim.star", src.to_owned(), &run::dialect())?;
                            eval.eval_module(ast, &globals).map(|_| ())
                        }));
                        let o = run::OUT.with(|o| std::mem::take(&mut *o.borrow_mut()));
                        let (kind, line, msg) = match r {
                            Ok(Ok(())) => (String::new(), 0, String::new()),
                            Ok(Err(e)) => run::err_of(&e),
                            Err(p) => ("panic".to_owned(), 0, p),
                        };
                        json!({"kind": kind, "line": line, "msg": msg, "out": o, "total": eval.get_total_tick_count(), "stack": eval.call_stack_count()})
                    };
                    let main = one(&src, &mut eval);
                    let probe = one("emit(1)\n", &mut eval);
                    json!({"main": main, "probe": probe})
                })
            }));
            runs.push(match r {
                Ok(j) => j,
                Err(p) => json!({"main": {"kind": "panic", "msg": p, "out": [], "total": 0, "stack": 0}, "probe": {"kind": "panic"}}),
            });
        }
        out.write(&json!({"id": c["id"], "src": src, "runs": runs}))?;
    }
    out.finish()
}

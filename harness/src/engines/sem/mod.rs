//! The `Sem` engines: programs as JSON ASTs, printed to source, run on the real evaluator,
//! recorded for Trace_Sem.tla (V), or replayed from TLC-generated cases (G).

pub mod gen;
pub mod print;
pub mod run;

use serde_json::json;
use serde_json::Value as J;

use crate::util;

fn is_static(kind: &str, msg: &str) -> bool {
    kind == "parse"
        || (msg.starts_with("Variable `") && msg.contains("not found"))
        || msg.contains("Dictionary key repeated")
}

/// Run one AST: prints it (assigning lines), evaluates, returns the trace record.
pub fn run_ast(id: &str, mut ast: J, globals: &starlark::environment::Globals) -> (J, bool) {
    let src = print::module(&mut ast);
    let o = match util::catch(|| run::run_source(&src, globals)) {
        Ok(o) => o,
        Err(p) => run::Outcome { out: vec![], kind: "panic".to_owned(), line: 0, msg: p, parse_error: false },
    };
    let stat = is_static(&o.kind, &o.msg);
    (
        json!({"id": id, "ast": ast, "out": o.out, "err": {"kind": o.kind, "line": o.line}, "msg": o.msg, "src": src}),
        stat,
    )
}

/// vh record sem <out.ndjson> --seed S --n N [--stmts K]
pub fn record(rest: &[String]) -> anyhow::Result<()> {
    let mut out = util::NdWriter::create(&rest[0])?;
    let seed = util::opt_u64(rest, "--seed", 1);
    let n = util::opt_u64(rest, "--n", 100);
    let stmts = util::opt_u64(rest, "--stmts", 8) as usize;
    let globals = run::globals();
    let mut statics = 0;
    let mut kinds: std::collections::BTreeMap<String, u64> = Default::default();
    for i in 0..n {
        let mut rng = util::Rng(seed.wrapping_mul(1_000_003).wrapping_add(i));
        let wrap = rng.chance(1, 2);
        let k = 3 + rng.below(stmts as u64) as usize;
        let ast = {
            let mut g = gen::Gen::new(&mut rng);
            g.module(k, wrap)
        };
        let (rec, stat) = run_ast(&format!("s{}p{}", seed, i), ast, &globals);
        if stat {
            statics += 1;
            continue;
        }
        *kinds.entry(rec["err"]["kind"].as_str().unwrap_or("").to_owned()).or_insert(0) += 1;
        out.write(&rec)?;
    }
    out.finish()?;
    println!("{}", json!({"programs": n, "static_rejected": statics, "kinds": kinds}));
    Ok(())
}

/// vh replay sem <cases.ndjson> <out.ndjson>: each case {"id", "ast"}; output = trace records.
pub fn replay(rest: &[String]) -> anyhow::Result<()> {
    let cases = util::read_ndjson(&rest[0])?;
    let mut out = util::NdWriter::create(&rest[1])?;
    let globals = run::globals();
    for c in cases {
        let (rec, stat) = run_ast(c["id"].as_str().unwrap_or("?"), c["ast"].clone(), &globals);
        let mut rec = rec;
        rec["static"] = json!(stat);
        out.write(&rec)?;
    }
    out.finish()
}

/// vh runsrc sem - : read source text from stdin, run it, print {out, err, msg}
pub fn runsrc(_rest: &[String]) -> anyhow::Result<()> {
    use std::io::Read;
    let mut src = String::new();
    std::io::stdin().read_to_string(&mut src)?;
    let globals = run::globals();
    let o = match util::catch(|| run::run_source(&src, &globals)) {
        Ok(o) => o,
        Err(p) => run::Outcome { out: vec![], kind: "panic".to_owned(), line: 0, msg: p, parse_error: false },
    };
    println!("{}", json!({"out": o.out, "err": {"kind": o.kind, "line": o.line}, "msg": o.msg}));
    Ok(())
}

/// Run a session: several chunks evaluated one after another on the same Module + Evaluator.
/// Returns per chunk: transcript, error kind/line/message, call-stack depth afterwards and the
/// balance of iteration-lock hook events (starts - stops) during the chunk.
pub fn run_session(chunks: &mut [J], globals: &starlark::environment::Globals, gc: Option<starlark::verif::GcMode>) -> Vec<J> {
    use starlark::environment::Module;
    use starlark::eval::Evaluator;
    use starlark::syntax::AstModule;
    let mut res = Vec::new();
    Module::with_temp_heap(|module| {
        let mut eval = Evaluator::new(&module);
        if let Some(g) = gc.clone() {
            starlark::verif::set_gc_mode(g);
        }
        for ch in chunks.iter_mut() {
            let src = print::module(ch);
            run::OUT.with(|o| o.borrow_mut().clear());
            starlark::verif::start_recording();
            let r = util::catch(std::panic::AssertUnwindSafe(|| {
                let ast = AstModule::parse("chunk.star", src.clone(), &run::dialect())?;
                eval.eval_module(ast, globals).map(|_| ())
            }));
            let evs = starlark::verif::take_events();
            let mut locks: i64 = 0;
            let mut pushes: i64 = 0;
            for e in &evs {
                match e.a {
                    "iter_start" => locks += 1,
                    "iter_stop" => locks -= 1,
                    "push" => pushes += 1,
                    "pop" => pushes -= 1,
                    _ => {}
                }
            }
            let out = run::OUT.with(|o| std::mem::take(&mut *o.borrow_mut()));
            let (kind, line, msg) = match r {
                Ok(Ok(())) => (String::new(), 0, String::new()),
                Ok(Err(e)) => run::err_of(&e),
                Err(p) => ("panic".to_owned(), 0, p),
            };
            let stack = util::catch(std::panic::AssertUnwindSafe(|| eval.call_stack_count())).unwrap_or(usize::MAX);
            // the embedder's view of the module must stay usable after any outcome: read every name
            let host = util::catch(std::panic::AssertUnwindSafe(|| {
                let mut n = 0;
                for name in module.names() {
                    if module.get(name.as_str()).is_some() {
                        n += 1;
                    }
                }
                n
            }));
            let host_ok = host.is_ok();
            let mut rec = json!({"out": out, "kind": kind, "line": line, "msg": msg, "stack": stack, "locks": locks, "pushes": pushes, "src": src, "host_ok": host_ok});
            if let Err(p) = host {
                rec["host_panic"] = json!(p);
            }
            res.push(rec);
        }
        starlark::verif::set_gc_mode(starlark::verif::GcMode::Default);
    });
    res
}

/// vh replay sess <cases.ndjson> <out.ndjson>: case {"id","chunks":[ast...]}
pub fn replay_sessions(rest: &[String]) -> anyhow::Result<()> {
    let cases = util::read_ndjson(&rest[0])?;
    let mut out = util::NdWriter::create(&rest[1])?;
    let globals = run::globals();
    for c in cases {
        let mut chunks: Vec<J> = c["chunks"].as_array().cloned().unwrap_or_default();
        let res = match util::catch(std::panic::AssertUnwindSafe(|| run_session(&mut chunks, &globals, None))) {
            Ok(r) => json!({"id": c["id"], "res": r, "status": "ok"}),
            Err(p) => json!({"id": c["id"], "res": [], "status": "panic", "what": p}),
        };
        out.write(&res)?;
    }
    out.finish()
}

/// vh replay lim <cases.ndjson> <out.ndjson>: case {"id","class":{cap,budget,cancel},"prog":ast}
/// Runs the program under a call-stack cap, a tick budget and a cancellation point (the flag is
/// seen by the first periodic check at or after tick `cancel`), then a probe evaluation on the
/// same evaluator; everything twice (tick counts must repeat).
pub fn replay_limits(rest: &[String]) -> anyhow::Result<()> {
    use starlark::environment::Module;
    use starlark::eval::Evaluator;
    use starlark::syntax::AstModule;
    let cases = util::read_ndjson(&rest[0])?;
    let mut out = util::NdWriter::create(&rest[1])?;
    let globals = run::globals();
    for c in cases {
        let cap = c["class"]["cap"].as_u64().unwrap_or(50) as usize;
        let budget = c["class"]["budget"].as_u64().unwrap_or(0);
        let cancel = c["class"]["cancel"].as_u64().unwrap_or(0);
        let mut prog = c["prog"].clone();
        let src = print::module(&mut prog);
        let mut runs = Vec::new();
        for _ in 0..2 {
            let r = util::catch(std::panic::AssertUnwindSafe(|| {
                Module::with_temp_heap(|module| {
                    let mut eval = Evaluator::new(&module);
                    eval.set_max_callstack_size(cap).unwrap();
                    if budget > 0 {
                        eval.set_max_tick_count(budget).unwrap();
                    }
                    starlark::verif::set_total_ticks(0);
                    if cancel > 0 {
                        // the flag is "raised at tick `cancel`": a check sees it iff the total is >= cancel
                        eval.set_check_cancelled(Box::new(move || starlark::verif::total_ticks() >= cancel));
                    }
                    let mut one = |src: &str, eval: &mut Evaluator| -> J {
                        run::OUT.with(|o| o.borrow_mut().clear());
                        let r = util::catch(std::panic::AssertUnwindSafe(|| {
                            let ast = AstModule::parse("lim.star", src.to_owned(), &run::dialect())?;
                            eval.eval_module(ast, &globals).map(|_| ())
                        }));
                        let o = run::OUT.with(|o| std::mem::take(&mut *o.borrow_mut()));
                        let (kind, line, msg) = match r {
                            Ok(Ok(())) => (String::new(), 0, String::new()),
                            Ok(Err(e)) => run::err_of(&e),
                            Err(p) => ("panic".to_owned(), 0, p),
                        };
                        json!({"kind": kind, "line": line, "msg": msg, "out": o, "total": eval.get_total_tick_count(), "stack": eval.call_stack_count()})
                    };
                    let main = one(&src, &mut eval);
                    let probe = one("emit(1)\n", &mut eval);
                    let probe2 = one("def _p(n):\n    for i in range(n):\n        pass\n_p(1500)\n", &mut eval);
                    json!({"main": main, "probe": probe, "probe2": probe2})
                })
            }));
            runs.push(match r {
                Ok(j) => j,
                Err(p) => json!({"main": {"kind": "panic", "msg": p, "out": [], "total": 0, "stack": 0}, "probe": {"kind": "panic"}, "probe2": {"kind": "panic", "total": 0}}),
            });
        }
        out.write(&json!({"id": c["id"], "src": src, "runs": runs}))?;
    }
    out.finish()
}

fn zero_lines(j: &mut J) {
    match j {
        J::Object(m) => {
            if m.contains_key("k") {
                m.insert("line".to_owned(), json!(0));
            }
            for (_, v) in m.iter_mut() {
                zero_lines(v);
            }
        }
        J::Array(a) => {
            for v in a.iter_mut() {
                zero_lines(v);
            }
        }
        _ => {}
    }
}

/// The value the embedder binds to `hostv` (and stores, inside a tuple, as extra_value):
/// [1, [2, 3], "host"].  `pre`/`post` are the statements Sem executes in its place.
fn host_pre_post() -> (J, J) {
    use print::str_to_cp;
    let mut pre = json!([{"k": "assign", "tg": {"k": "var", "n": "hostv"}, "e": {"k": "list", "items": [
        {"k": "int", "v": 1}, {"k": "list", "items": [{"k": "int", "v": 2}, {"k": "int", "v": 3}]}, {"k": "str", "s": str_to_cp("host")}]}}]);
    let mut post = json!([{"k": "expr", "e": {"k": "call", "f": {"k": "var", "n": "emit"}, "args": [
        {"k": "tuple", "items": [{"k": "var", "n": "hostv"}, {"k": "str", "s": str_to_cp("x")}]}], "named": [],
        "star": {"k": "absent"}, "starstar": {"k": "absent"}}}]);
    zero_lines(&mut pre);
    zero_lines(&mut post);
    (pre, post)
}

/// One run of `src` with `hostv` bound by the embedder and extra_value set, under a GC mode.
/// The encoding of extra_value after the run is appended to the transcript.
pub fn run_hosted(src: &str, globals: &starlark::environment::Globals, gc: starlark::verif::GcMode) -> (run::Outcome, u64, u64, Vec<(i64, i64)>) {
    use starlark::environment::Module;
    use starlark::eval::Evaluator;
    use starlark::syntax::AstModule;
    use starlark::values::list::AllocList;
    run::OUT.with(|o| o.borrow_mut().clear());
    let ast = match AstModule::parse("prog.star", src.to_owned(), &run::dialect()) {
        Ok(a) => a,
        Err(e) => {
            let (_, line, msg) = run::err_of(&e);
            return (run::Outcome { out: vec![], kind: "parse".to_owned(), line, msg, parse_error: true }, 0, 0, vec![]);
        }
    };
    let mut gcs = Vec::new();
    let (r, sp, col) = Module::with_temp_heap(|module| {
        let heap = module.heap();
        let inner = heap.alloc(AllocList([2, 3]));
        let hostv = heap.alloc(AllocList([heap.alloc(1), inner, heap.alloc("host")]));
        module.set("hostv", hostv);
        module.set_extra_value(heap.alloc((hostv, "x")));
        starlark::verif::set_gc_mode(gc);
        starlark::verif::start_recording();
        let r = {
            let mut eval = Evaluator::new(&module);
            match eval.eval_module(ast, globals) {
                Ok(_) => Ok(()),
                Err(e) => Err(run::err_of(&e)),
            }
        };
        let evs = starlark::verif::take_events();
        let mut before = 0;
        for e in &evs {
            if e.a == "gc_begin" {
                before = e.x;
            }
            if e.a == "gc_end" {
                gcs.push((before, e.x));
            }
        }
        let (sp, col) = starlark::verif::gc_counters();
        starlark::verif::set_gc_mode(starlark::verif::GcMode::Default);
        if let Some(x) = module.extra_value() {
            let e = run::encode(x, &mut Vec::new());
            run::OUT.with(|o| o.borrow_mut().push(e));
        }
        (r, sp, col)
    });
    let out = run::OUT.with(|o| std::mem::take(&mut *o.borrow_mut()));
    let o = match r {
        Ok(()) => run::Outcome { out, kind: String::new(), line: 0, msg: String::new(), parse_error: false },
        Err((kind, line, msg)) => run::Outcome { out, kind, line, msg, parse_error: false },
    };
    (o, sp, col, gcs)
}

fn parse_gc(s: &str) -> starlark::verif::GcMode {
    use starlark::verif::GcMode;
    if s == "never" {
        GcMode::Never
    } else if s == "default" {
        GcMode::Default
    } else if let Some(k) = s.strip_prefix("every:") {
        GcMode::Every(k.parse().unwrap_or(1))
    } else if let Some(l) = s.strip_prefix("at:") {
        GcMode::At(l.split(',').filter_map(|x| x.parse().ok()).collect())
    } else {
        GcMode::Default
    }
}

/// vh record gcprog <out.ndjson> --seed S --n N --stmts K : generate GC-flavoured programs, run
/// each once with collection disabled; records {id, ast (pre+prog+post, for Sem), prog, src, out, err, safepoints}
pub fn record_gcprog(rest: &[String]) -> anyhow::Result<()> {
    let mut out = util::NdWriter::create(&rest[0])?;
    let seed = util::opt_u64(rest, "--seed", 1);
    let n = util::opt_u64(rest, "--n", 50);
    let stmts = util::opt_u64(rest, "--stmts", 8) as usize;
    let globals = run::globals();
    let (pre, post) = host_pre_post();
    let mut statics = 0;
    for i in 0..n {
        let mut rng = util::Rng(seed.wrapping_mul(7_000_003).wrapping_add(i));
        let k = 4 + rng.below(stmts as u64) as usize;
        let mut ast = {
            let mut g = gen::Gen::new(&mut rng);
            g.module_gc(k)
        };
        let src = print::module(&mut ast);
        let r = util::catch(|| run_hosted(&src, &globals, starlark::verif::GcMode::Never));
        let (o, sp, _col, _) = match r {
            Ok(x) => x,
            Err(p) => (run::Outcome { out: vec![], kind: "panic".to_owned(), line: 0, msg: p, parse_error: false }, 0, 0, vec![]),
        };
        if is_static(&o.kind, &o.msg) {
            statics += 1;
            continue;
        }
        // on failure the post statement does not run in Sem either (the module failed)
        let mut full = pre.as_array().unwrap().clone();
        full.extend(ast.as_array().unwrap().iter().cloned());
        full.extend(post.as_array().unwrap().iter().cloned());
        // the embedder appends extra_value even after a failure; Sem's post only runs on success:
        let mut outv = o.out.clone();
        if !o.kind.is_empty() {
            outv.pop();
        }
        out.write(&json!({"id": format!("g{}p{}", seed, i), "ast": full, "src": src, "out": outv,
            "err": {"kind": o.kind, "line": o.line}, "msg": o.msg, "safepoints": sp}))?;
    }
    out.finish()?;
    println!("{}", json!({"programs": n, "static_rejected": statics}));
    Ok(())
}

/// vh replay gc <cases.ndjson> <out.ndjson> [--progress FILE]: case {"id","src","sched":"every:2"|...}
pub fn replay_gc(rest: &[String]) -> anyhow::Result<()> {
    let cases = util::read_ndjson(&rest[0])?;
    let mut out = util::NdWriter::create(&rest[1])?;
    let progress = util::opt(rest, "--progress").map(|s| s.to_owned());
    let globals = run::globals();
    for c in cases {
        let id = c["id"].as_str().unwrap_or("?").to_owned();
        let sched = c["sched"].as_str().unwrap_or("default").to_owned();
        if let Some(p) = &progress {
            std::fs::write(p, format!("{} {}", id, sched))?;
        }
        let src = c["src"].as_str().unwrap_or("").to_owned();
        let r = util::catch(|| run_hosted(&src, &globals, parse_gc(&sched)));
        let rec = match r {
            Ok((o, sp, col, gcs)) => {
                let mut outv = o.out.clone();
                if !o.kind.is_empty() {
                    outv.pop();
                }
                json!({"id": id, "sched": sched, "out": outv, "err": {"kind": o.kind, "line": o.line}, "msg": o.msg,
                       "safepoints": sp, "collections": col, "gcs": gcs})
            }
            Err(p) => json!({"id": id, "sched": sched, "out": [], "err": {"kind": "panic", "line": 0}, "msg": p, "safepoints": 0, "collections": 0, "gcs": []}),
        };
        out.write(&rec)?;
        out.flush()?; // a crash must not lose what was already observed
    }
    out.finish()
}

/// vh record sess <out.ndjson> --seed S --n N --chunks C --stmts K: random sessions (several
/// chunks on one module + evaluator, any subset failing); one record per session for
/// Trace_Session.tla: {"a":"session","id","chunks":[ast...],"res":[{out,kind,line,stack,locks}...]}
pub fn record_sessions(rest: &[String]) -> anyhow::Result<()> {
    let mut out = util::NdWriter::create(&rest[0])?;
    let seed = util::opt_u64(rest, "--seed", 1);
    let n = util::opt_u64(rest, "--n", 50);
    let nchunks = util::opt_u64(rest, "--chunks", 5);
    let stmts = util::opt_u64(rest, "--stmts", 4) as usize;
    let globals = run::globals();
    let mut statics = 0;
    for i in 0..n {
        let mut rng = util::Rng(seed.wrapping_mul(9_000_011).wrapping_add(i));
        let mut chunks: Vec<J> = Vec::new();
        let mut statics_flags: Vec<bool> = Vec::new();
        {
            let mut g = gen::Gen::new(&mut rng);
            g.set_fail_rate(40);
            g.set_dialect(true);
            for _ in 0..nchunks {
                let k = 1 + g.rng.below(stmts as u64) as usize;
                let mut b = g.block(k, 2);
                // sometimes the chunk refers to a name that is bound nowhere: it must be rejected as a
                // whole, before any of its statements runs, and leave module and evaluator usable
                let st = g.rng.chance(1, 7);
                if st {
                    let pos = g.rng.below(b.len() as u64 + 1) as usize;
                    b.insert(pos, json!({"k": "expr", "e": {"k": "call", "f": {"k": "var", "n": "emit"}, "args": [{"k": "var", "n": "undefined_zz"}],
                        "named": [], "star": {"k": "absent"}, "starstar": {"k": "absent"}}}));
                }
                // sometimes the chunk ends by running into the call-stack limit (unbounded recursion,
                // directly or through a native callback): afterwards the stack must be empty again and
                // the next chunks must behave as on a fresh evaluator
                if !st && g.rng.chance(1, 9) {
                    let via_map = g.rng.chance(1, 3);
                    let call_self = |arg: J| json!({"k": "call", "f": {"k": "var", "n": "runaway_"}, "args": [arg], "named": [], "star": {"k": "absent"}, "starstar": {"k": "absent"}});
                    let next = json!({"k": "bin", "op": "+", "l": {"k": "var", "n": "n_"}, "r": {"k": "int", "v": 1}});
                    let body = if via_map {
                        json!({"k": "call", "f": {"k": "var", "n": "map"}, "args": [{"k": "var", "n": "runaway_"}, {"k": "list", "items": [next]}], "named": [], "star": {"k": "absent"}, "starstar": {"k": "absent"}})
                    } else {
                        call_self(next)
                    };
                    b.push(json!({"k": "def", "name": "runaway_", "params": [{"n": "n_", "ncp": [110, 95], "kind": "normal", "d": {"k": "absent"}}],
                        "body": [{"k": "return", "e": body}]}));
                    b.push(json!({"k": "expr", "e": {"k": "call", "f": {"k": "var", "n": "emit"}, "args": [call_self(json!({"k": "int", "v": 0}))],
                        "named": [], "star": {"k": "absent"}, "starstar": {"k": "absent"}}}));
                }
                statics_flags.push(st);
                chunks.push(J::Array(b));
            }
        }
        let res = match util::catch(std::panic::AssertUnwindSafe(|| run_session(&mut chunks, &globals, None))) {
            Ok(r) => r,
            Err(p) => vec![json!({"out": [], "kind": "panic", "line": 0, "msg": p, "stack": 0, "locks": 0})],
        };
        // a chunk the generator did not mean to be statically invalid but is: generator defect, drop the session
        let mut res = res;
        let mut unexpected = false;
        for (ci, r) in res.iter_mut().enumerate() {
            let st = is_static(r["kind"].as_str().unwrap_or(""), r["msg"].as_str().unwrap_or(""));
            if st {
                r["kind"] = json!("static");
                r["line"] = json!(0);
            }
            if st && !statics_flags.get(ci).copied().unwrap_or(false) {
                unexpected = true;
            }
        }
        if unexpected {
            statics += 1;
            continue;
        }
        out.write(&json!({"a": "session", "id": format!("ss{}n{}", seed, i), "chunks": chunks, "static": statics_flags, "res": res}))?;
    }
    out.finish()?;
    println!("{}", json!({"sessions": n, "static_rejected": statics}));
    Ok(())
}

// ------------------------------------------------------------------ C02: optimiser-opaque variants

fn collect_consts(j: &J, acc: &mut Vec<J>) {
    match j {
        J::Object(m) => {
            if let Some(k) = m.get("k").and_then(|k| k.as_str()) {
                if k == "int" || k == "str" {
                    let mut c = j.clone();
                    c.as_object_mut().unwrap().remove("line");
                    if !acc.contains(&c) {
                        acc.push(c);
                    }
                    return;
                }
            }
            for (key, v) in m {
                if key != "tg" {
                    collect_consts(v, acc);
                }
            }
        }
        J::Array(a) => a.iter().for_each(|v| collect_consts(v, acc)),
        _ => {}
    }
}

/// The specification-defined opacifying rewrite: constants are fetched from the list KK bound
/// by a prelude statement, callees and method receivers go through a one-element list.
fn opacify(j: &mut J, consts: &[J]) {
    match j {
        J::Object(m) => {
            let k = m.get("k").and_then(|k| k.as_str()).unwrap_or("").to_owned();
            if k == "int" || k == "str" {
                let mut c = J::Object(m.clone());
                c.as_object_mut().unwrap().remove("line");
                if let Some(i) = consts.iter().position(|x| *x == c) {
                    *j = json!({"k": "index", "e": {"k": "var", "n": "KK"}, "i": {"k": "int", "v": i}});
                }
                return;
            }
            for (key, v) in m.iter_mut() {
                if key != "tg" && key != "params" {
                    opacify(v, consts);
                }
            }
            if k == "call" {
                let f = m.get("f").cloned().unwrap();
                if f["k"] == "var" && f["n"] != "emit" {
                    m.insert("f".to_owned(), json!({"k": "index", "e": {"k": "list", "items": [f]}, "i": {"k": "int", "v": 0}}));
                }
            }
            if k == "mcall" {
                let o = m.get("obj").cloned().unwrap();
                m.insert("obj".to_owned(), json!({"k": "index", "e": {"k": "list", "items": [o]}, "i": {"k": "int", "v": 0}}));
            }
        }
        J::Array(a) => a.iter_mut().for_each(|v| opacify(v, consts)),
        _ => {}
    }
}

/// Run `defs_src` in a module, freeze it, then evaluate `load("prog", "main"); main()` in a
/// second module: the frozen-and-loaded execution of C02.
fn run_frozen_loaded(defs_src: &str, globals: &starlark::environment::Globals) -> Option<run::Outcome> {
    use starlark::environment::Module;
    use starlark::eval::Evaluator;
    use starlark::eval::ReturnFileLoader;
    use starlark::syntax::AstModule;
    run::OUT.with(|o| o.borrow_mut().clear());
    let ast = AstModule::parse("prog.star", defs_src.to_owned(), &run::dialect()).ok()?;
    let frozen = Module::with_temp_heap(|module| {
        {
            let mut eval = Evaluator::new(&module);
            eval.eval_module(ast, globals).ok()?;
        }
        module.freeze().ok()
    })?;
    let pre = run::OUT.with(|o| std::mem::take(&mut *o.borrow_mut()));
    if !pre.is_empty() {
        return None; // the defining module itself emitted: not a pure definition module
    }
    let b_src = "load(\"prog\", \"main\")\nmain()\n";
    let ast_b = AstModule::parse("b.star", b_src.to_owned(), &run::dialect()).ok()?;
    let mut modules = std::collections::HashMap::new();
    modules.insert("prog", &frozen);
    let loader = ReturnFileLoader { modules: &modules };
    let r = Module::with_temp_heap(|module| {
        let mut eval = Evaluator::new(&module);
        eval.set_loader(&loader);
        match eval.eval_module(ast_b, globals) {
            Ok(_) => Ok(()),
            Err(e) => Err((run::err_of(&e), e.span().map(|s| s.filename().to_owned()).unwrap_or_default())),
        }
    });
    let out = run::OUT.with(|o| std::mem::take(&mut *o.borrow_mut()));
    Some(match r {
        Ok(()) => run::Outcome { out, kind: String::new(), line: 0, msg: String::new(), parse_error: false },
        Err(((kind, line, msg), _file)) => run::Outcome { out, kind, line, msg, parse_error: false },
    })
}

/// A: `defs_src` (defines make()); B: `main = make()`, frozen; C: loads main from B and calls it.
fn run_factory(a_src: &str, globals: &starlark::environment::Globals) -> Option<run::Outcome> {
    use starlark::environment::Module;
    use starlark::eval::Evaluator;
    use starlark::eval::ReturnFileLoader;
    use starlark::syntax::AstModule;
    run::OUT.with(|o| o.borrow_mut().clear());
    let ast = AstModule::parse("prog.star", a_src.to_owned(), &run::dialect()).ok()?;
    let a = Module::with_temp_heap(|module| {
        {
            let mut eval = Evaluator::new(&module);
            eval.eval_module(ast, globals).ok()?;
        }
        module.freeze().ok()
    })?;
    let mut ta = std::collections::HashMap::new();
    ta.insert("prog", &a);
    let la = ReturnFileLoader { modules: &ta };
    let ast_b = AstModule::parse("b.star", "load(\"prog\", \"make\")\nmain = make()\n".to_owned(), &run::dialect()).ok()?;
    let b = Module::with_temp_heap(|module| {
        {
            let mut eval = Evaluator::new(&module);
            eval.set_loader(&la);
            eval.eval_module(ast_b, globals).ok()?;
        }
        module.freeze().ok()
    })?;
    if !run::OUT.with(|o| o.borrow().is_empty()) {
        return None;
    }
    let mut tb = std::collections::HashMap::new();
    tb.insert("b", &b);
    let lb = ReturnFileLoader { modules: &tb };
    let ast_c = AstModule::parse("c.star", "load(\"b\", \"main\")\nmain()\n".to_owned(), &run::dialect()).ok()?;
    let r = Module::with_temp_heap(|module| {
        let mut eval = Evaluator::new(&module);
        eval.set_loader(&lb);
        match eval.eval_module(ast_c, globals) {
            Ok(_) => Ok(()),
            Err(e) => Err(run::err_of(&e)),
        }
    });
    let out = run::OUT.with(|o| std::mem::take(&mut *o.borrow_mut()));
    Some(match r {
        Ok(()) => run::Outcome { out, kind: String::new(), line: 0, msg: String::new(), parse_error: false },
        Err((kind, line, msg)) => run::Outcome { out, kind, line, msg, parse_error: false },
    })
}

/// vh record opt <out.ndjson> --seed S --n N --stmts K
/// Per program three records (same id prefix): plain, opaque, frozen (wrapped programs only).
pub fn record_opt(rest: &[String]) -> anyhow::Result<()> {
    let mut out = util::NdWriter::create(&rest[0])?;
    let seed = util::opt_u64(rest, "--seed", 1);
    let n = util::opt_u64(rest, "--n", 100);
    let stmts = util::opt_u64(rest, "--stmts", 6) as usize;
    let globals = run::globals();
    let mut statics = 0;
    let mut frozen_n = 0;
    for i in 0..n {
        let mut rng = util::Rng(seed.wrapping_mul(5_000_011).wrapping_add(i));
        let wrap = rng.chance(3, 5);
        let k = 2 + rng.below(stmts as u64) as usize;
        let body = {
            let mut g = gen::Gen::new(&mut rng);
            g.module_opt(k, wrap)
        };
        let mut consts = Vec::new();
        collect_consts(&body, &mut consts);
        let prelude = json!({"k": "assign", "tg": {"k": "var", "n": "KK"}, "e": {"k": "list", "items": consts.clone()}});
        let mut plain: Vec<J> = vec![prelude.clone()];
        plain.extend(body.as_array().unwrap().iter().cloned());
        let mut opaque_body = body.clone();
        opacify(&mut opaque_body, &consts);
        let mut opaque: Vec<J> = vec![prelude];
        opaque.extend(opaque_body.as_array().unwrap().iter().cloned());
        let id = format!("o{}p{}", seed, i);
        let (rec_p, stat) = run_ast(&format!("{}-plain", id), J::Array(plain.clone()), &globals);
        if stat {
            statics += 1;
            continue;
        }
        let (rec_o, stat_o) = run_ast(&format!("{}-opaque", id), J::Array(opaque), &globals);
        out.write(&rec_p)?;
        if !stat_o {
            out.write(&rec_o)?;
        }
        if wrap && !stat_o {
            // "factory" execution: main is a closure DECLARED in module A (inside make()), INSTANTIATED while
            // module B is evaluated (so it freezes with B) and CALLED from module C after B is frozen.
            // Its body is the opaque body, which reads A's global KK.
            let osrc = rec_o["src"].as_str().unwrap_or("");
            let mut lines: Vec<&str> = osrc.lines().collect();
            lines.pop(); // the `[main][0]()` call
            let mut a2 = String::new();
            // the constants and the two type declarations stay at module level (a record / enum type gets
            // its name from a module-level variable); everything else goes into make()
            a2.push_str(&lines[..3].join("\n"));
            a2.push_str("\ndef make():\n");
            for l in &lines[3..] {
                a2.push_str("    ");
                a2.push_str(l);
                a2.push('\n');
            }
            a2.push_str("    return main\n");
            if let Ok(Some(o)) = util::catch(|| run_factory(&a2, &globals)) {
                let mut rec = rec_o.clone();
                rec["id"] = json!(format!("{}-factory", id));
                rec["out"] = json!(o.out);
                // body lines are shifted by the extra `def make():` line
                let line = if o.line > 4 { o.line - 1 } else { o.line };
                rec["err"] = json!({"kind": o.kind, "line": line});
                rec["msg"] = json!(o.msg);
                rec["src"] = json!(a2);
                out.write(&rec)?;
            }
        }
        if wrap {
            // module A = everything but the final `main()` call; lines are those of the plain print
            let src = rec_p["src"].as_str().unwrap_or("");
            let mut lines: Vec<&str> = src.lines().collect();
            lines.pop();
            let defs_src = format!("{}\n", lines.join("\n"));
            if let Ok(Some(o)) = util::catch(|| run_frozen_loaded(&defs_src, &globals)) {
                frozen_n += 1;
                let mut rec = rec_p.clone();
                rec["id"] = json!(format!("{}-frozen", id));
                rec["out"] = json!(o.out);
                rec["err"] = json!({"kind": o.kind, "line": o.line});
                rec["msg"] = json!(o.msg);
                out.write(&rec)?;
            }
        }
    }
    out.finish()?;
    println!("{}", json!({"programs": n, "static_rejected": statics, "frozen_variants": frozen_n}));
    Ok(())
}

/// vh replay frz <cases.ndjson> <out.ndjson>: case {"id","a":ast,"loaded":[names],"mods":[[chunk...]...]}
/// Module A is evaluated and frozen; each importer is a fresh module that load()s the names
/// and evaluates its chunks one after another on one evaluator.
pub fn replay_frozen(rest: &[String]) -> anyhow::Result<()> {
    use starlark::environment::Module;
    use starlark::eval::Evaluator;
    use starlark::eval::ReturnFileLoader;
    use starlark::syntax::AstModule;
    let cases = util::read_ndjson(&rest[0])?;
    let mut out = util::NdWriter::create(&rest[1])?;
    let globals = run::globals();
    for c in cases {
        let id = c["id"].clone();
        let r = util::catch(std::panic::AssertUnwindSafe(|| -> Result<J, String> {
            let mut a = c["a"].clone();
            let src_a = print::module(&mut a);
            run::OUT.with(|o| o.borrow_mut().clear());
            let ast = AstModule::parse("a.star", src_a.clone(), &run::dialect()).map_err(|e| format!("{}", e))?;
            let (frozen, a_err) = Module::with_temp_heap(|module| {
                let e = {
                    let mut eval = Evaluator::new(&module);
                    match eval.eval_module(ast, &globals) {
                        Ok(_) => (String::new(), 0, String::new()),
                        Err(e) => run::err_of(&e),
                    }
                };
                (module.freeze().map_err(|e| format!("{:?}", e)), e)
            });
            let mut a_out = run::OUT.with(|o| std::mem::take(&mut *o.borrow_mut()));
            let frozen_a = frozen?;
            let mut a_err = a_err;
            let mut src_a = src_a;
            // optional middle module: loads from A, is evaluated and frozen; importers then load from it
            let has_mid = c["mid"].as_array().map(|x| !x.is_empty()).unwrap_or(false);
            let frozen = if has_mid {
                let mut mid = c["mid"].clone();
                let body = print::module(&mut mid);
                let names: Vec<String> = c["loaded_mid"].as_array().unwrap().iter().map(|x| x.as_str().unwrap().to_owned()).collect();
                let src_b = format!("load(\"a\", {})\n{}", names.iter().map(|n| format!("\"{}\"", n)).collect::<Vec<_>>().join(", "), body);
                let mut ta = std::collections::HashMap::new();
                ta.insert("a", &frozen_a);
                let la = ReturnFileLoader { modules: &ta };
                let ast_b = AstModule::parse("mid.star", src_b.clone(), &run::dialect()).map_err(|e| format!("{}", e))?;
                let (fb, eb) = Module::with_temp_heap(|module| {
                    let e = {
                        let mut eval = Evaluator::new(&module);
                        eval.set_loader(&la);
                        match eval.eval_module(ast_b, &globals) {
                            Ok(_) => (String::new(), 0, String::new()),
                            Err(e) => run::err_of(&e),
                        }
                    };
                    (module.freeze().map_err(|e| format!("{:?}", e)), e)
                });
                a_out.extend(run::OUT.with(|o| std::mem::take(&mut *o.borrow_mut())));
                a_err = eb;
                src_a = format!("{}# --- mid module\n{}", src_a, src_b);
                fb?
            } else {
                frozen_a
            };
            let mut mods_res = Vec::new();
            let names: Vec<String> = c["loaded"].as_array().unwrap().iter().map(|x| x.as_str().unwrap().to_owned()).collect();
            let from = if has_mid { "mid" } else { "a" };
            let load_line = format!("load(\"{}\", {})\n", from, names.iter().map(|n| format!("\"{}\"", n)).collect::<Vec<_>>().join(", "));
            let mut table = std::collections::HashMap::new();
            table.insert(from, &frozen);
            let loader = ReturnFileLoader { modules: &table };
            for m in c["mods"].as_array().unwrap() {
                let mut chunks: Vec<J> = m.as_array().cloned().unwrap_or_default();
                let res = Module::with_temp_heap(|module| {
                    let mut eval = Evaluator::new(&module);
                    eval.set_loader(&loader);
                    let mut res = Vec::new();
                    for (i, ch) in chunks.iter_mut().enumerate() {
                        let body = print::module(ch);
                        let src = if i == 0 { format!("{}{}", load_line, body) } else { body };
                        run::OUT.with(|o| o.borrow_mut().clear());
                        let r = util::catch(std::panic::AssertUnwindSafe(|| {
                            let ast = AstModule::parse("b.star", src.clone(), &run::dialect())?;
                            eval.eval_module(ast, &globals).map(|_| ())
                        }));
                        let o = run::OUT.with(|o| std::mem::take(&mut *o.borrow_mut()));
                        let (kind, line, msg) = match r {
                            Ok(Ok(())) => (String::new(), 0, String::new()),
                            Ok(Err(e)) => run::err_of(&e),
                            Err(p) => ("panic".to_owned(), 0, p),
                        };
                        res.push(json!({"out": o, "kind": kind, "line": line, "msg": msg, "src": src}));
                    }
                    res
                });
                mods_res.push(J::Array(res));
            }
            // and straight from the frozen module through the host API
            let host = frozen
                .get_owned("x")
                .map(|v| {
                    // a scratch heap: sets only offer the generic iteration protocol, which needs one
                    Module::with_temp_heap(|scratch| {
                        let x = v.add_to_heap(scratch.heap());
                        run::encode_h(x, &mut Vec::new(), Some(scratch.heap()))
                    })
                })
                .map_err(|e| format!("{}", e))?;
            Ok(json!({"a": {"out": a_out, "kind": a_err.0, "msg": a_err.2, "src": src_a}, "mods": mods_res, "host_x": host}))
        }));
        let rec = match r {
            Ok(Ok(j)) => json!({"id": id, "status": "ok", "res": j}),
            Ok(Err(e)) => json!({"id": id, "status": "error", "what": e}),
            Err(p) => json!({"id": id, "status": "panic", "what": p}),
        };
        out.write(&rec)?;
        out.flush()?;
    }
    out.finish()
}

//! Random program generator (JSON AST) for the Sem core. Type-aware so that most programs run
//! to completion, with deliberate failures injected at a low rate; terminating by construction
//! (loops range over finite values, recursion carries a decreasing counter).

use serde_json::json;
use serde_json::Value as J;

use super::print::str_to_cp;
use crate::util::Rng;

#[derive(Clone, Debug, PartialEq)]
pub enum Ty {
    Int,
    Str,
    Bool,
    NoneT,
    ListInt,
    ListStr,
    ListAny,
    DictSI, // str -> int
    DictII, // int -> int
    TupII,  // (int, int)
    Fn(usize), // plain function of n positional ints returning int
    Any,
    SetInt,  // dialect only (insertion-ordered sets are not part of the Python-shared core)
    StructT, // dialect only: struct(n = int, s = str, l = list of int)
    RecV,    // dialect only: instance of RecT = record(n = int, s = field(str, "d"), l = field(list, []))
    EnumV,   // dialect only: value of EnumT = enum("a", "b", "c")
}

#[derive(Clone)]
struct Var {
    name: String,
    ty: Ty,
}

pub struct Gen<'a> {
    pub rng: &'a mut Rng,
    scopes: Vec<Vec<Var>>, // innermost last; scope 0 = module
    counter: usize,
    in_loop: usize,
    in_def: usize,
    fail_rate: u64, // per 1000 expression choices
    budget: i64,
    /// also generate what is specific to this implementation's dialect (sets, struct, popitem,
    /// dict | dict, getattr): used by C02/C03/C04/C14, not by C01 (Python-shared core only)
    dialect: bool,
    /// the prelude declaring RecT / EnumT at module level has been emitted
    types_declared: bool,
    /// closed helper functions of a wrapped program that go to module level, before `def main()`:
    /// after the module is frozen their callers are compiled against a known, frozen callee
    hoisted: Vec<J>,
    hoist: bool,
}

fn absent() -> J {
    json!({"k": "absent"})
}
fn int(v: i64) -> J {
    json!({"k": "int", "v": v})
}
fn strlit(s: &str) -> J {
    json!({"k": "str", "s": str_to_cp(s)})
}
fn var(n: &str) -> J {
    json!({"k": "var", "n": n})
}
fn bin(op: &str, l: J, r: J) -> J {
    json!({"k": "bin", "op": op, "l": l, "r": r})
}
fn call(f: J, args: Vec<J>) -> J {
    json!({"k": "call", "f": f, "args": args, "named": [], "star": absent(), "starstar": absent()})
}
fn callf(name: &str, args: Vec<J>) -> J {
    call(var(name), args)
}
fn mcall(obj: J, name: &str, args: Vec<J>) -> J {
    json!({"k": "mcall", "obj": obj, "name": name, "ncp": str_to_cp(name), "args": args, "named": []})
}
fn named(n: &str, e: J) -> J {
    json!({"n": n, "ncp": str_to_cp(n), "e": e})
}
fn param(n: &str, kind: &str, d: J) -> J {
    json!({"n": n, "ncp": str_to_cp(n), "kind": kind, "d": d})
}
fn dot(obj: J, name: &str) -> J {
    json!({"k": "dot", "e": obj, "name": name, "ncp": str_to_cp(name)})
}
fn tuple(items: Vec<J>) -> J {
    json!({"k": "tuple", "items": items})
}
fn none() -> J {
    json!({"k": "none"})
}
fn tname(n: &str) -> J {
    json!({"k": "tname", "n": n})
}
fn param_ty(n: &str, kind: &str, d: J, ty: J) -> J {
    json!({"n": n, "ncp": str_to_cp(n), "kind": kind, "d": d, "ty": ty})
}
fn emit(e: J) -> J {
    json!({"k": "expr", "e": callf("emit", vec![e])})
}
fn assign(n: &str, e: J) -> J {
    json!({"k": "assign", "tg": {"k": "var", "n": n}, "e": e})
}

const WORDS: &[&str] = &["", "a", "b", "ab", "ba", "abc", "x y", " pad ", "Aa", "zz", "a,b,c", "k1", "k2",
    "Hello World", "aXbXa", "  two  words ", "A1b c2D", "UP", "42", "a-b_c", "a\nb", "t\tx", "say \"hi\"", "b\\s", "it's"];
/// (template, kinds of the arguments: i int, s str, a anything) for the % operator
const PERCENT: &[(&str, &str)] = &[("%s", "a"), ("<%s>", "a"), ("%r", "a"), ("%d", "i"), ("%x", "i"), ("%X", "i"), ("%o", "i"),
    ("%s=%d", "si"), ("%d%%", "i"), ("%s, %r, %s", "asa"), ("%d-%d-%d", "iii"), ("plain", ""), ("100%%", ""), ("%s %s", "aa"),
    // ill-formed or mismatching
    ("%s %s", "a"), ("%s", "aa"), ("%", "a"), ("%z", "a"), ("abc%", ""), ("%d", "s"), ("%x", "s")];
/// (template, positional kinds, named) for str.format
const DOTFMT: &[(&str, &str, &[&str])] = &[("{}", "a", &[]), ("{} and {}", "aa", &[]), ("{0}{1}{0}", "as", &[]), ("{!r}", "s", &[]),
    ("{0!r}:{1!s}", "sa", &[]), ("{x}", "", &["x"]), ("{x}-{y}-{x}", "", &["x", "y"]), ("{} {k}", "a", &["k"]), ("{{}}", "", &[]),
    ("{{{}}}", "i", &[]), ("no fields", "a", &[]), ("a{}b{}c", "ia", &[]), ("{1}", "ai", &[]),
    // ill-formed or mismatching
    ("{} {0}", "aa", &[]), ("{0} {}", "aa", &[]), ("{}", "", &[]), ("{} {}", "a", &[]), ("{2}", "aa", &[]), ("{x}", "a", &[]),
    ("{", "a", &[]), ("}", "a", &[]), ("{!}", "a", &[]), ("{!z}", "a", &[]), ("a{b", "a", &[]), ("{x", "", &["x"])];
const KEYS: &[&str] = &["a", "b", "c", "k1", "k2"];

impl<'a> Gen<'a> {
    pub fn new(rng: &'a mut Rng) -> Gen<'a> {
        Gen { rng, scopes: vec![vec![]], counter: 0, in_loop: 0, in_def: 0, fail_rate: 12, budget: 60, dialect: false, types_declared: false, hoisted: Vec::new(), hoist: false }
    }

    pub fn set_dialect(&mut self, d: bool) {
        self.dialect = d;
    }

    /// Module-level declarations of a record type and an enum type (a type gets its name from the
    /// module-level variable it is first assigned to, so these never go inside a def).
    pub fn type_prelude(&mut self) -> Vec<J> {
        self.types_declared = true;
        let fld = |ty: &str, d: J| callf("field", vec![var(ty), d]);
        let mut rec = call(var("record"), vec![]);
        rec["named"] = json!([named("n", var("int")), named("s", fld("str", strlit("d"))), named("l", fld("list", json!({"k": "list", "items": []})))]);
        let en = call(var("enum"), vec![strlit("a"), strlit("b"), strlit("c")]);
        vec![json!({"k": "assign", "tg": {"k": "var", "n": "RecT", "ncp": str_to_cp("RecT")}, "e": rec}),
             json!({"k": "assign", "tg": {"k": "var", "n": "EnumT", "ncp": str_to_cp("EnumT")}, "e": en})]
    }

    fn typed(&self) -> bool {
        self.dialect && self.types_declared
    }

    fn rec_expr(&mut self, d: u32) -> J {
        let vs = self.vars_of(|t| *t == Ty::RecV);
        if !vs.is_empty() && self.rng.chance(1, 2) {
            return var(&self.pick(&vs).name);
        }
        let mut c = call(var("RecT"), vec![]);
        let mut nm = vec![named("n", self.expr(&Ty::Int, d.saturating_sub(1)))];
        if self.rng.chance(1, 2) {
            nm.push(named("s", self.expr(&Ty::Str, d.saturating_sub(1))));
        }
        if self.rng.chance(1, 3) {
            nm.insert(0, named("l", self.expr(&Ty::ListInt, d.saturating_sub(1))));
        }
        if self.rng.chance(1, 25) {
            nm = vec![named("s", strlit("only"))]; // the required field is missing
        }
        if self.rng.chance(1, 25) {
            nm.push(named("zz", int(1))); // no such field
        }
        if self.rng.chance(1, 25) {
            for x in nm.iter_mut() {
                if x["n"] == "n" {
                    *x = named("n", strlit("not an int"));
                }
            }
        }
        c["named"] = J::Array(nm);
        c
    }

    fn enum_expr(&mut self, d: u32) -> J {
        let vs = self.vars_of(|t| *t == Ty::EnumV);
        if !vs.is_empty() && self.rng.chance(1, 2) {
            return var(&self.pick(&vs).name);
        }
        match self.rng.below(5) {
            0 | 1 => callf("EnumT", vec![strlit(self.pick(&["a", "b", "c", "c", "a", "zz"]))]),
            2 => json!({"k": "index", "e": var("EnumT"), "i": int(self.pick(&[0i64, 1, 2, -1, 3]))}),
            3 => dot(var("EnumT"), self.pick(&["a", "b", "c"])),
            _ => callf("EnumT", vec![bin("+", strlit(""), strlit(self.pick(&["a", "b"])))]),
        }
    }

    pub fn set_fail_rate(&mut self, r: u64) {
        self.fail_rate = r;
    }

    fn fresh(&mut self, p: &str) -> String {
        self.counter += 1;
        format!("{}{}", p, self.counter)
    }

    fn pick<T: Clone>(&mut self, xs: &[T]) -> T {
        xs[self.rng.below(xs.len() as u64) as usize].clone()
    }

    fn vars_of(&self, pred: impl Fn(&Ty) -> bool) -> Vec<Var> {
        let mut v = Vec::new();
        for s in &self.scopes {
            for x in s {
                if pred(&x.ty) {
                    v.push(x.clone());
                }
            }
        }
        v
    }

    fn declare(&mut self, name: &str, ty: Ty) {
        let s = self.scopes.last_mut().unwrap();
        s.retain(|v| v.name != name);
        s.push(Var { name: name.to_owned(), ty });
    }

    fn small_int(&mut self) -> i64 {
        let c = [0, 1, 2, 3, -1, -2, 5, 7, 10, -3, 4];
        self.pick(&c)
    }

    // ---------------------------------------------------------------- expressions by type
    pub fn expr(&mut self, ty: &Ty, depth: u32) -> J {
        self.budget -= 1;
        if self.budget < -200 {
            return self.leaf(ty);
        }
        if depth == 0 || self.rng.chance(1, 4) {
            return self.leaf(ty);
        }
        if self.rng.below(1000) < self.fail_rate {
            return self.failing(ty, depth);
        }
        match ty {
            Ty::Int => self.int_expr(depth),
            Ty::Str => self.str_expr(depth),
            Ty::Bool => self.bool_expr(depth),
            Ty::ListInt => self.list_int_expr(depth),
            Ty::ListStr => self.list_str_expr(depth),
            Ty::DictSI => self.dict_si_expr(depth),
            Ty::DictII => self.dict_ii_expr(depth),
            Ty::TupII => {
                let a = self.expr(&Ty::Int, depth - 1);
                let b = self.expr(&Ty::Int, depth - 1);
                json!({"k": "tuple", "items": [a, b]})
            }
            Ty::SetInt => self.set_int_expr(depth),
            Ty::StructT => self.struct_expr(depth),
            Ty::RecV => self.rec_expr(depth),
            Ty::EnumV => self.enum_expr(depth),
            _ => self.leaf(ty),
        }
    }

    /// an argument for a format conversion: i int, s str, a anything printable
    fn fmt_arg(&mut self, kind: char, d: u32) -> J {
        match kind {
            'i' => self.expr(&Ty::Int, d),
            's' => self.expr(&Ty::Str, d),
            _ => {
                let mut ts = vec![Ty::Int, Ty::Str, Ty::Bool, Ty::ListInt, Ty::TupII, Ty::DictSI, Ty::NoneT, Ty::ListStr];
                if self.dialect {
                    ts.push(Ty::StructT);
                    ts.push(Ty::SetInt);
                }
                let t = self.pick(&ts);
                self.expr(&t, d)
            }
        }
    }

    fn percent_expr(&mut self, d: u32) -> J {
        // well-formed templates are first in the table; the rest fail
        let n_ok = 14;
        let (t, kinds) = if self.rng.chance(1, 12) { PERCENT[n_ok + self.rng.below((PERCENT.len() - n_ok) as u64) as usize] } else { PERCENT[self.rng.below(n_ok as u64) as usize] };
        let args: Vec<J> = kinds.chars().map(|k| self.fmt_arg(k, d)).collect();
        // one argument: bare or as a 1-tuple; a bare tuple argument is spread (that is the rule)
        let rhs = if args.len() == 1 && self.rng.chance(1, 2) { args[0].clone() } else { tuple(args) };
        bin("%", strlit(t), rhs)
    }

    fn dotformat_expr(&mut self, d: u32) -> J {
        let n_ok = 13;
        let (t, kinds, names) = if self.rng.chance(1, 12) { DOTFMT[n_ok + self.rng.below((DOTFMT.len() - n_ok) as u64) as usize] } else { DOTFMT[self.rng.below(n_ok as u64) as usize] };
        let args: Vec<J> = kinds.chars().map(|k| self.fmt_arg(k, d)).collect();
        let mut c = mcall(strlit(t), "format", args);
        let nm: Vec<J> = names.iter().map(|n| named(n, self.fmt_arg('a', d))).collect();
        c["named"] = J::Array(nm);
        c
    }

    fn fstr_expr(&mut self) -> J {
        let vs = self.vars_of(|t| matches!(t, Ty::Int | Ty::Str | Ty::Bool | Ty::ListInt | Ty::TupII));
        if vs.is_empty() {
            return self.leaf(&Ty::Str);
        }
        let n = 1 + self.rng.below(2) as usize;
        let names: Vec<String> = (0..n).map(|_| self.pick(&vs).name).collect();
        let lits: Vec<J> = (0..n + 1).map(|_| str_to_cp(self.pick(&["", "a", " = ", "{", "}", "x:", "%s"]))).collect();
        json!({"k": "fstr", "lits": lits, "names": names})
    }

    fn set_int_expr(&mut self, d: u32) -> J {
        match self.rng.below(7) {
            0 | 1 => callf("set", vec![self.int_iterable(d - 1)]),
            2 => bin(self.pick(&["|", "&", "-", "^"]), self.expr(&Ty::SetInt, d - 1), self.expr(&Ty::SetInt, d - 1)),
            3 => mcall(self.expr(&Ty::SetInt, d - 1), self.pick(&["union", "intersection", "difference", "symmetric_difference"]), vec![self.int_iterable(d - 1)]),
            4 => callf("set", vec![]),
            _ => {
                let vs = self.vars_of(|t| *t == Ty::SetInt);
                if vs.is_empty() { callf("set", vec![self.expr(&Ty::ListInt, d - 1)]) } else { var(&self.pick(&vs).name) }
            }
        }
    }

    fn struct_expr(&mut self, d: u32) -> J {
        let vs = self.vars_of(|t| *t == Ty::StructT);
        if !vs.is_empty() && self.rng.chance(1, 2) {
            return var(&self.pick(&vs).name);
        }
        let mut c = call(var("struct"), vec![]);
        let mut nm = vec![named("n", self.expr(&Ty::Int, d.saturating_sub(1))), named("s", self.expr(&Ty::Str, d.saturating_sub(1))),
                          named("l", self.expr(&Ty::ListInt, d.saturating_sub(1)))];
        if self.rng.chance(1, 3) {
            nm.swap(0, 1); // equality must not depend on the order of the fields
        }
        c["named"] = J::Array(nm);
        c
    }

    fn leaf(&mut self, ty: &Ty) -> J {
        let vs = self.vars_of(|t| t == ty);
        if !vs.is_empty() && self.rng.chance(3, 5) {
            let v = self.pick(&vs);
            return var(&v.name);
        }
        match ty {
            Ty::Int => int(self.small_int()),
            Ty::Str => {
                let w = self.pick(WORDS);
                strlit(w)
            }
            Ty::Bool => json!({"k": "bool", "b": self.rng.chance(1, 2)}),
            Ty::NoneT => json!({"k": "none"}),
            Ty::ListInt => {
                let n = self.rng.below(4);
                let items: Vec<J> = (0..n).map(|_| int(self.small_int())).collect();
                json!({"k": "list", "items": items})
            }
            Ty::ListStr => {
                let n = self.rng.below(4);
                let items: Vec<J> = (0..n).map(|_| strlit(self.pick(WORDS))).collect();
                json!({"k": "list", "items": items})
            }
            Ty::ListAny => json!({"k": "list", "items": [int(1), strlit("a"), {"k": "none"}]}),
            Ty::DictSI => {
                let n = self.rng.below(4) as usize;
                let mut ks = Vec::new();
                let mut vs = Vec::new();
                for i in 0..n {
                    ks.push(strlit(KEYS[i]));
                    vs.push(int(self.small_int()));
                }
                json!({"k": "dict", "keys": ks, "vals": vs})
            }
            Ty::DictII => {
                let n = self.rng.below(4) as usize;
                let mut ks = Vec::new();
                let mut vs = Vec::new();
                for i in 0..n {
                    ks.push(int(i as i64));
                    vs.push(int(self.small_int()));
                }
                json!({"k": "dict", "keys": ks, "vals": vs})
            }
            Ty::TupII => json!({"k": "tuple", "items": [int(self.small_int()), int(self.small_int())]}),
            Ty::Fn(n) => {
                let ps: Vec<J> = (0..*n).map(|i| param(&format!("p{}", i), "normal", absent())).collect();
                let body = if *n > 0 { bin("+", var("p0"), int(1)) } else { int(7) };
                json!({"k": "lambda", "params": ps, "body": body})
            }
            Ty::Any => int(0),
            Ty::RecV => {
                let mut c = call(var("RecT"), vec![]);
                c["named"] = json!([named("n", int(self.small_int()))]);
                c
            }
            Ty::EnumV => callf("EnumT", vec![strlit(self.pick(&["a", "b", "c"]))]),
            Ty::SetInt => callf("set", vec![json!({"k": "list", "items": [int(self.small_int()), int(self.small_int())]})]),
            Ty::StructT => {
                let mut c = call(var("struct"), vec![]);
                c["named"] = json!([named("n", int(self.small_int())), named("s", strlit(self.pick(WORDS))), named("l", json!({"k": "list", "items": [int(1)]}))]);
                c
            }
        }
    }

    fn int_expr(&mut self, d: u32) -> J {
        match self.rng.below(26) {
            0 | 1 => {
                let op = self.pick(&["+", "-", "*"]);
                let l = self.expr(&Ty::Int, d - 1);
                let r = if op == "*" { int(self.small_int()) } else { self.expr(&Ty::Int, d - 1) };
                bin(op, l, r)
            }
            2 => {
                // division by a non-zero literal (zero comes from `failing`)
                let op = self.pick(&["//", "%"]);
                let l = self.expr(&Ty::Int, d - 1);
                let r = self.pick(&[1i64, 2, 3, -2, -3, 7]);
                bin(op, l, int(r))
            }
            3 => callf("len", vec![self.any_sized(d - 1)]),
            4 => {
                let l = self.expr(&Ty::ListInt, d - 1);
                // index guarded by a literal non-empty list is hard; use get-with-default shape
                json!({"k": "if", "c": l.clone(), "t": {"k": "index", "e": l, "i": int(self.pick(&[0i64, -1]))}, "f": int(0)})
            }
            5 => {
                let dct = self.expr(&Ty::DictSI, d - 1);
                let k = strlit(self.pick(KEYS));
                mcall(dct, "get", vec![k, int(self.small_int())])
            }
            6 => {
                let c = self.expr(&Ty::Bool, d - 1);
                let t = self.expr(&Ty::Int, d - 1);
                let f = self.expr(&Ty::Int, d - 1);
                json!({"k": "if", "c": c, "t": t, "f": f})
            }
            7 => {
                let e = self.expr(&Ty::Int, d - 1);
                json!({"k": self.pick(&["neg", "pos", "inv"]), "e": e})
            }
            8 => callf("abs", vec![self.expr(&Ty::Int, d - 1)]),
            9 => {
                let fs = self.vars_of(|t| matches!(t, Ty::Fn(_)));
                if fs.is_empty() {
                    return self.leaf(&Ty::Int);
                }
                let f = self.pick(&fs);
                let n = if let Ty::Fn(n) = f.ty { n } else { 0 };
                let args: Vec<J> = (0..n).map(|_| self.expr(&Ty::Int, d - 1)).collect();
                callf(&f.name, args)
            }
            10 => {
                let s = self.expr(&Ty::Str, d - 1);
                mcall(s, self.pick(&["find", "count"]), vec![strlit(self.pick(&["a", "b", "ab", "z"]))])
            }
            11 => {
                let l = self.expr(&Ty::ListInt, d - 1);
                let dflt = int(self.small_int());
                // min/max of a non-empty list: l + [x]
                let l2 = bin("+", l, json!({"k": "list", "items": [dflt]}));
                callf(self.pick(&["min", "max"]), vec![l2])
            }
            12 => {
                let a = self.expr(&Ty::Int, d - 1);
                let b = self.expr(&Ty::Int, d - 1);
                json!({"k": self.pick(&["and", "or"]), "l": a, "r": b})
            }
            13 => {
                let t = self.expr(&Ty::TupII, d - 1);
                json!({"k": "index", "e": t, "i": int(self.pick(&[0i64, 1, -1, -2]))})
            }
            14 => {
                let op = self.pick(&["&", "|", "^"]);
                let l = self.expr(&Ty::Int, d - 1);
                let r = self.expr(&Ty::Int, d - 1);
                bin(op, l, r)
            }
            16 => {
                let l = self.expr(&Ty::Int, d - 1);
                if self.rng.chance(1, 2) { bin(">>", l, int(self.pick(&[0i64, 1, 2, 5, 31, 40]))) } else { bin("<<", bin("%", l, int(1000)), int(self.pick(&[0i64, 1, 3, 8]))) }
            }
            17 => {
                let s = self.expr(&Ty::Str, d - 1);
                let nd = strlit(self.pick(&["a", "b", "ab", "z", " "]));
                let mut a = vec![nd];
                if self.rng.chance(1, 2) {
                    a.push(if self.rng.chance(1, 5) { none() } else { int(self.pick(&[0i64, 1, 2, -1, -3, 7])) });
                    if self.rng.chance(1, 2) {
                        a.push(if self.rng.chance(1, 5) { none() } else { int(self.pick(&[0i64, 1, 3, -1, 9])) });
                    }
                }
                mcall(s, self.pick(&["find", "rfind", "count", "find", "rfind"]), a)
            }
            18 => {
                // index / rindex fail when the needle is absent: guard with `in`
                let s = self.expr(&Ty::Str, d - 1);
                let nd = strlit(self.pick(&["a", "b", "ab"]));
                json!({"k": "if", "c": bin("in", nd.clone(), s.clone()), "t": mcall(s, self.pick(&["index", "rindex"]), vec![nd]), "f": int(-1)})
            }
            19 => {
                let e = self.expr(&Ty::Int, d - 1);
                match self.rng.below(4) {
                    0 => callf("int", vec![callf("str", vec![e])]),
                    1 => callf("int", vec![strlit(self.pick(&["12", "-7", "+3", "007", "0", "x", "", "1 2", "--1", "9a"]))]),
                    2 => {
                        let (t, b) = self.pick(&[("ff", 16i64), ("FF", 16), ("101", 2), ("-11", 2), ("777", 8), ("z", 36), ("12", 3), ("8", 8), ("g", 16), ("", 10)]);
                        callf("int", vec![strlit(t), int(b)])
                    }
                    _ => callf("int", vec![self.expr(&Ty::Bool, d - 1)]),
                }
            }
            20 => {
                let s = bin("+", self.expr(&Ty::Str, d - 1), strlit("q"));
                callf("ord", vec![json!({"k": "index", "e": s, "i": int(self.pick(&[0i64, -1]))})])
            }
            21 => {
                let l = self.expr(&Ty::ListInt, d - 1);
                let x = int(self.small_int());
                let mut a = vec![x.clone()];
                if self.rng.chance(1, 2) {
                    a.push(int(self.pick(&[0i64, 1, -1, -2])));
                }
                // (x in l) does not imply x in the window: the failure is part of the semantics
                json!({"k": "if", "c": bin("in", x, l.clone()), "t": mcall(l, "index", a), "f": int(-1)})
            }
            24 if self.typed() => dot(self.expr(&Ty::RecV, d - 1), "n"),
            25 if self.typed() => match self.rng.below(3) {
                0 => dot(self.expr(&Ty::EnumV, d - 1), "index"),
                1 => callf("len", vec![var("EnumT")]),
                _ => callf("len", vec![dot(self.expr(&Ty::RecV, d - 1), "l")]),
            },
            22 if self.dialect => {
                let t = self.expr(&Ty::StructT, d - 1);
                if self.rng.chance(1, 4) { callf("getattr", vec![t, strlit(self.pick(&["n", "nope"])), int(7)]) } else { dot(t, "n") }
            }
            23 if self.dialect => callf("len", vec![self.expr(&Ty::SetInt, d - 1)]),
            _ => {
                let l = self.expr(&Ty::ListInt, d - 1);
                let x = self.fresh("c");
                // sum via comprehension len: len([x for x in l if x > 0])
                callf("len", vec![json!({"k": "compr", "elt": var(&x), "clauses": [
                    {"k": "for", "tg": {"k": "var", "n": x}, "it": l},
                    {"k": "cif", "c": bin(">", var(&x), int(0))}]})])
            }
        }
    }

    fn any_sized(&mut self, d: u32) -> J {
        let t = self.pick(&[Ty::ListInt, Ty::Str, Ty::DictSI, Ty::TupII, Ty::ListStr]);
        self.expr(&t, d)
    }

    fn str_expr(&mut self, d: u32) -> J {
        match self.rng.below(27) {
            12 | 13 => self.percent_expr(d - 1),
            14 | 15 => self.dotformat_expr(d - 1),
            16 => self.fstr_expr(),
            17 => mcall(self.expr(&Ty::Str, d - 1), self.pick(&["capitalize", "title"]), vec![]),
            18 => {
                let s = self.expr(&Ty::Str, d - 1);
                let cs = strlit(self.pick(&["a", "ab", " ", "", "xa b"]));
                mcall(s, self.pick(&["strip", "lstrip", "rstrip"]), vec![cs])
            }
            19 => {
                let s = self.expr(&Ty::Str, d - 1);
                mcall(s, self.pick(&["removeprefix", "removesuffix"]), vec![strlit(self.pick(&["a", "ab", "", "c", " "]))])
            }
            20 => {
                let s = self.expr(&Ty::Str, d - 1);
                mcall(s, "replace", vec![strlit(self.pick(&["a", "b", "ab", ""])), strlit(self.pick(&["", "x", "aa"])), int(self.pick(&[0i64, 1, 2, 5]))])
            }
            21 => {
                let s = self.expr(&Ty::Str, d - 1);
                let t = mcall(s, self.pick(&["partition", "rpartition"]), vec![strlit(self.pick(&["a", "b", ",", " ", "ab"]))]);
                json!({"k": "index", "e": t, "i": int(self.pick(&[0i64, 1, 2, -1]))})
            }
            22 => {
                let e = self.expr(&Ty::Int, d - 1);
                callf("chr", vec![bin("+", int(97), bin("%", e, int(26)))])
            }
            25 if self.typed() => match self.rng.below(5) {
                0 => dot(self.expr(&Ty::RecV, d - 1), "s"),
                1 => dot(self.expr(&Ty::EnumV, d - 1), "value"),
                2 => callf(self.pick(&["str", "repr"]), vec![self.expr(&Ty::RecV, d - 1)]),
                3 => callf(self.pick(&["str", "repr"]), vec![self.expr(&Ty::EnumV, d - 1)]),
                _ => dot(var(self.pick(&["RecT", "EnumT"])), "type"),
            },
            23 if self.dialect => dot(self.expr(&Ty::StructT, d - 1), "s"),
            24 if self.dialect => callf(self.pick(&["str", "repr"]), vec![self.expr(&Ty::StructT, d - 1)]),
            0 | 1 => {
                let l = self.expr(&Ty::Str, d - 1);
                let r = self.expr(&Ty::Str, d - 1);
                bin("+", l, r)
            }
            2 => bin("*", self.expr(&Ty::Str, d - 1), int(self.pick(&[0i64, 1, 2, 3, -1]))),
            3 => {
                let s = self.expr(&Ty::Str, d - 1);
                mcall(s, self.pick(&["upper", "lower", "strip", "lstrip", "rstrip"]), vec![])
            }
            4 => {
                let t = self.pick(&[Ty::Int, Ty::Bool, Ty::ListInt, Ty::TupII, Ty::Str, Ty::DictSI, Ty::NoneT, Ty::ListStr]);
                callf(self.pick(&["str", "repr"]), vec![self.expr(&t, d - 1)])
            }
            5 => {
                let s = self.expr(&Ty::Str, d - 1);
                let (lo, hi, st) = self.slice_parts();
                json!({"k": "slice", "e": s, "lo": lo, "hi": hi, "st": st})
            }
            6 => {
                let sep = strlit(self.pick(&[",", "", "-", "ab"]));
                mcall(sep, "join", vec![self.expr(&Ty::ListStr, d - 1)])
            }
            7 => {
                let s = self.expr(&Ty::Str, d - 1);
                mcall(s, "replace", vec![strlit(self.pick(&["a", "b", "ab"])), strlit(self.pick(&["", "x", "aa"]))])
            }
            8 => {
                let c = self.expr(&Ty::Bool, d - 1);
                let t = self.expr(&Ty::Str, d - 1);
                let f = self.expr(&Ty::Str, d - 1);
                json!({"k": "if", "c": c, "t": t, "f": f})
            }
            9 => {
                let t = self.any_sized(d - 1);
                callf("type", vec![t])
            }
            10 => {
                // s[i] on a string made non-empty
                let s = bin("+", self.expr(&Ty::Str, d - 1), strlit("q"));
                json!({"k": "index", "e": s, "i": int(self.pick(&[0i64, -1]))})
            }
            _ => self.leaf(&Ty::Str),
        }
    }

    fn slice_parts(&mut self) -> (J, J, J) {
        let part = |g: &mut Gen| -> J {
            if g.rng.chance(1, 3) { absent() } else { int(g.pick(&[0i64, 1, 2, -1, -2, 3, 5, -5])) }
        };
        let lo = part(self);
        let hi = part(self);
        let st = if self.rng.chance(1, 2) { absent() } else { int(self.pick(&[1i64, 2, -1, -2, 3])) };
        (lo, hi, st)
    }

    fn bool_expr(&mut self, d: u32) -> J {
        match self.rng.below(18) {
            10 => {
                let s = self.expr(&Ty::Str, d - 1);
                mcall(s, self.pick(&["isalnum", "isalpha", "isdigit", "isspace", "islower", "isupper", "istitle"]), vec![])
            }
            11 => {
                let s = self.expr(&Ty::Str, d - 1);
                let p = if self.rng.chance(1, 2) { tuple(vec![strlit(self.pick(&["a", "b", ""])), strlit(self.pick(&["ab", "x", " "]))]) } else { strlit(self.pick(&["a", "", "ab", "b"])) };
                let mut a = vec![p];
                if self.rng.chance(1, 2) {
                    a.push(int(self.pick(&[0i64, 1, 2, -1])));
                    if self.rng.chance(1, 2) {
                        a.push(int(self.pick(&[1i64, 2, 3, -1, 9])));
                    }
                }
                mcall(s, self.pick(&["startswith", "endswith"]), a)
            }
            12 if self.dialect => {
                let op = self.pick(&["in", "notin"]);
                bin(op, self.expr(&Ty::Int, d - 1), self.expr(&Ty::SetInt, d - 1))
            }
            13 if self.dialect => {
                let l = self.expr(&Ty::SetInt, d - 1);
                match self.rng.below(3) {
                    0 => bin(self.pick(&["==", "!="]), l, self.expr(&Ty::SetInt, d - 1)),
                    _ => mcall(l, self.pick(&["issubset", "issuperset"]), vec![self.int_iterable(d - 1)]),
                }
            }
            16 if self.typed() => {
                let t = self.pick(&[Ty::RecV, Ty::EnumV]);
                bin(self.pick(&["==", "!="]), self.expr(&t, d - 1), self.expr(&t, d - 1))
            }
            14 if self.dialect => bin(self.pick(&["==", "!="]), self.expr(&Ty::StructT, d - 1), self.expr(&Ty::StructT, d - 1)),
            15 if self.dialect => callf("hasattr", vec![self.expr(&Ty::StructT, d - 1), strlit(self.pick(&["n", "s", "zz"]))]),
            0 | 1 => {
                let op = self.pick(&["==", "!=", "<", "<=", ">", ">="]);
                let t = self.pick(&[Ty::Int, Ty::Str, Ty::TupII, Ty::ListInt]);
                let l = self.expr(&t, d - 1);
                let r = self.expr(&t, d - 1);
                bin(op, l, r)
            }
            2 => {
                let op = self.pick(&["in", "notin"]);
                let x = self.expr(&Ty::Int, d - 1);
                let c = self.expr(&Ty::ListInt, d - 1);
                bin(op, x, c)
            }
            3 => {
                let op = self.pick(&["in", "notin"]);
                let x = strlit(self.pick(KEYS));
                let t = self.pick(&[Ty::DictSI, Ty::Str, Ty::ListStr]);
                let c = self.expr(&t, d - 1);
                bin(op, x, c)
            }
            4 => json!({"k": "not", "e": self.any_sized(d - 1)}),
            5 => {
                let a = self.expr(&Ty::Bool, d - 1);
                let b = self.expr(&Ty::Bool, d - 1);
                json!({"k": self.pick(&["and", "or"]), "l": a, "r": b})
            }
            6 => callf(self.pick(&["any", "all"]), vec![self.expr(&Ty::ListInt, d - 1)]),
            7 => callf("bool", vec![self.any_sized(d - 1)]),
            8 => {
                let s = self.expr(&Ty::Str, d - 1);
                mcall(s, self.pick(&["startswith", "endswith"]), vec![strlit(self.pick(&["a", "", "ab", "b"]))])
            }
            _ => {
                // equality across representations: list vs list built differently, dict order
                let t = self.pick(&[Ty::DictSI, Ty::ListInt, Ty::DictII]);
                let l = self.expr(&t, d - 1);
                let r = self.expr(&t, d - 1);
                bin(self.pick(&["==", "!="]), l, r)
            }
        }
    }

    fn list_int_expr(&mut self, d: u32) -> J {
        match self.rng.below(14) {
            0 => {
                let n = self.rng.below(4);
                let items: Vec<J> = (0..n).map(|_| self.expr(&Ty::Int, d - 1)).collect();
                json!({"k": "list", "items": items})
            }
            1 => bin("+", self.expr(&Ty::ListInt, d - 1), self.expr(&Ty::ListInt, d - 1)),
            2 => bin("*", self.expr(&Ty::ListInt, d - 1), int(self.pick(&[0i64, 1, 2, -1]))),
            3 => {
                let l = self.expr(&Ty::ListInt, d - 1);
                let (lo, hi, st) = self.slice_parts();
                json!({"k": "slice", "e": l, "lo": lo, "hi": hi, "st": st})
            }
            4 => {
                let x = self.fresh("c");
                let it = self.int_iterable(d - 1);
                self.scopes.push(vec![Var { name: x.clone(), ty: Ty::Int }]);
                let elt = self.expr(&Ty::Int, d - 1);
                let mut clauses = vec![json!({"k": "for", "tg": {"k": "var", "n": x}, "it": it})];
                if self.rng.chance(1, 2) {
                    clauses.push(json!({"k": "cif", "c": self.expr(&Ty::Bool, d - 1)}));
                }
                if self.rng.chance(1, 4) {
                    let y = self.fresh("c");
                    let it2 = self.int_iterable(d - 1);
                    clauses.push(json!({"k": "for", "tg": {"k": "var", "n": y}, "it": it2}));
                }
                self.scopes.pop();
                json!({"k": "compr", "elt": elt, "clauses": clauses})
            }
            5 => {
                let l = self.expr(&Ty::ListInt, d - 1);
                let mut c = call(var("sorted"), vec![l]);
                if self.rng.chance(1, 3) {
                    c["named"] = json!([named("reverse", json!({"k": "bool", "b": true}))]);
                } else if self.rng.chance(1, 3) {
                    let p = self.fresh("q");
                    let lam = json!({"k": "lambda", "params": [param(&p, "normal", absent())],
                        "body": bin("%", var(&p), int(3))});
                    c["named"] = json!([named("key", lam)]);
                }
                c
            }
            6 => callf("list", vec![self.int_iterable(d - 1)]),
            7 => callf("reversed", vec![self.expr(&Ty::ListInt, d - 1)]),
            8 => mcall(self.expr(&Ty::DictSI, d - 1), "values", vec![]),
            9 => mcall(self.expr(&Ty::DictII, d - 1), "keys", vec![]),
            10 => callf("list", vec![self.expr(&Ty::TupII, d - 1)]),
            11 if self.dialect => callf(self.pick(&["list", "sorted"]), vec![self.expr(&Ty::SetInt, d - 1)]),
            12 if self.dialect => dot(self.expr(&Ty::StructT, d - 1), "l"),
            _ => self.leaf(&Ty::ListInt),
        }
    }

    fn int_iterable(&mut self, d: u32) -> J {
        match self.rng.below(5) {
            0 => callf("range", vec![int(self.pick(&[0i64, 1, 2, 3, 4]))]),
            1 => callf("range", vec![int(self.pick(&[0i64, 1, -1])), int(self.pick(&[3i64, 4, -3])), int(self.pick(&[1i64, 2, -1]))]),
            2 => self.expr(&Ty::TupII, d),
            _ => self.expr(&Ty::ListInt, d),
        }
    }

    fn list_str_expr(&mut self, d: u32) -> J {
        match self.rng.below(12) {
            7 => {
                let s = self.expr(&Ty::Str, d - 1);
                let sep = if self.rng.chance(1, 3) { none() } else { strlit(self.pick(&[",", " ", "a", "ab"])) };
                let mut a = vec![sep];
                if self.rng.chance(2, 3) {
                    a.push(int(self.pick(&[0i64, 1, 2, -1, 5])));
                }
                mcall(s, self.pick(&["split", "rsplit"]), a)
            }
            8 => mcall(self.expr(&Ty::Str, d - 1), self.pick(&["split", "rsplit"]), vec![]),
            9 => {
                let s = bin("+", self.expr(&Ty::Str, d - 1), strlit(self.pick(&["\n", "\nx", "\r\ny\n", "a\rb", ""])));
                let a = if self.rng.chance(1, 2) { vec![json!({"k": "bool", "b": self.rng.chance(1, 2)})] } else { vec![] };
                mcall(s, "splitlines", a)
            }
            10 => callf("list", vec![mcall(self.expr(&Ty::Str, d - 1), self.pick(&["partition", "rpartition"]), vec![strlit(self.pick(&["a", ",", " "]))])]),
            11 if self.typed() => match self.rng.below(2) {
                0 => mcall(var("EnumT"), "values", vec![]),
                _ => {
                    let x = self.fresh("c");
                    json!({"k": "compr", "elt": dot(var(&x), "value"), "clauses": [{"k": "for", "tg": {"k": "var", "n": x}, "it": var("EnumT")}]})
                }
            },
            0 => {
                let s = self.expr(&Ty::Str, d - 1);
                mcall(s, "split", vec![strlit(self.pick(&[",", " ", "a", "ab"]))])
            }
            1 => mcall(self.expr(&Ty::DictSI, d - 1), "keys", vec![]),
            2 => callf("sorted", vec![self.expr(&Ty::ListStr, d - 1)]),
            3 => bin("+", self.expr(&Ty::ListStr, d - 1), self.expr(&Ty::ListStr, d - 1)),
            4 => {
                let x = self.fresh("c");
                let it = self.expr(&Ty::ListStr, d - 1);
                json!({"k": "compr", "elt": mcall(var(&x), "upper", vec![]), "clauses": [
                    {"k": "for", "tg": {"k": "var", "n": x}, "it": it}]})
            }
            _ => self.leaf(&Ty::ListStr),
        }
    }

    fn dict_si_expr(&mut self, d: u32) -> J {
        match self.rng.below(8) {
            0 => {
                let n = self.rng.below(4) as usize;
                let mut ks = Vec::new();
                let mut vs = Vec::new();
                let mut keys: Vec<&str> = KEYS.to_vec();
                for _ in 0..n {
                    let i = self.rng.below(keys.len() as u64) as usize;
                    ks.push(strlit(keys.remove(i)));
                    vs.push(self.expr(&Ty::Int, d - 1));
                }
                json!({"k": "dict", "keys": ks, "vals": vs})
            }
            1 => {
                let x = self.fresh("c");
                let it = self.expr(&Ty::ListStr, d - 1);
                json!({"k": "dictcompr", "key": var(&x), "val": callf("len", vec![var(&x)]), "clauses": [
                    {"k": "for", "tg": {"k": "var", "n": x}, "it": it}]})
            }
            2 => callf("dict", vec![self.expr(&Ty::DictSI, d - 1)]),
            3 => {
                let mut c = call(var("dict"), vec![]);
                c["named"] = json!([named("a", self.expr(&Ty::Int, d - 1)), named("zz", self.expr(&Ty::Int, d - 1))]);
                c
            }
            4 => bin("|", self.expr(&Ty::DictSI, d - 1), self.expr(&Ty::DictSI, d - 1)),
            5 => {
                let mut c = call(var("dict"), vec![json!({"k": "list", "items": [tuple(vec![strlit(self.pick(KEYS)), self.expr(&Ty::Int, d - 1)]), tuple(vec![strlit(self.pick(KEYS)), int(self.small_int())])]})]);
                if self.rng.chance(1, 2) {
                    c["named"] = json!([named("b", int(self.small_int()))]);
                }
                c
            }
            _ => self.leaf(&Ty::DictSI),
        }
    }

    fn dict_ii_expr(&mut self, d: u32) -> J {
        match self.rng.below(4) {
            0 => {
                let x = self.fresh("c");
                let it = self.int_iterable(d - 1);
                json!({"k": "dictcompr", "key": var(&x), "val": bin("*", var(&x), int(2)), "clauses": [
                    {"k": "for", "tg": {"k": "var", "n": x}, "it": it}]})
            }
            1 => {
                let l = self.expr(&Ty::ListInt, d - 1);
                callf("dict", vec![callf("enumerate", vec![l])])
            }
            2 => {
                let a = self.expr(&Ty::ListInt, d - 1);
                let b = self.expr(&Ty::ListInt, d - 1);
                callf("dict", vec![callf("zip", vec![a, b])])
            }
            _ => self.leaf(&Ty::DictII),
        }
    }

    /// An expression of (nominally) type `ty` that is meant to fail at run time.
    fn failing(&mut self, ty: &Ty, d: u32) -> J {
        match self.rng.below(9) {
            0 => bin(self.pick(&["//", "%"]), self.expr(&Ty::Int, d - 1), int(0)),
            1 => json!({"k": "index", "e": self.expr(&Ty::ListInt, d - 1), "i": int(self.pick(&[9i64, -9]))}),
            2 => json!({"k": "index", "e": self.expr(&Ty::DictSI, d - 1), "i": strlit("nokey")}),
            3 => bin("+", self.expr(&Ty::Int, d - 1), self.expr(&Ty::Str, d - 1)),
            4 => bin("<", self.expr(&Ty::Int, d - 1), self.expr(&Ty::Str, d - 1)),
            5 => callf("len", vec![self.expr(&Ty::Int, d - 1)]),
            6 => json!({"k": "index", "e": self.expr(&Ty::DictSI, d - 1), "i": self.expr(&Ty::ListInt, d - 1)}),
            7 => mcall(self.expr(&Ty::ListInt, d - 1), "index", vec![int(99)]),
            _ => {
                let _ = ty;
                call(self.expr(&Ty::Int, d - 1), vec![])
            }
        }
    }

    // ---------------------------------------------------------------- statements
    pub fn block(&mut self, n: usize, depth: u32) -> Vec<J> {
        let mut out = Vec::new();
        for _ in 0..n {
            let s = self.stmt(depth);
            out.extend(s);
        }
        out
    }

    fn new_var_stmt(&mut self, d: u32) -> Vec<J> {
        let mut tys = vec![Ty::Int, Ty::Int, Ty::Str, Ty::Str, Ty::ListInt, Ty::ListInt, Ty::DictSI, Ty::Bool, Ty::ListStr, Ty::TupII, Ty::DictII];
        if self.dialect {
            tys.push(Ty::SetInt);
            tys.push(Ty::StructT);
        }
        if self.typed() {
            tys.push(Ty::RecV);
            tys.push(Ty::EnumV);
        }
        let ty = self.pick(&tys);
        // sometimes rebind an existing name of the same scope
        let existing: Vec<Var> = self.scopes.last().unwrap().iter().filter(|v| v.ty == ty).cloned().collect();
        let name = if !existing.is_empty() && self.rng.chance(1, 3) { self.pick(&existing).name } else { self.fresh("v") };
        let e = self.expr(&ty, d);
        self.declare(&name, ty);
        vec![assign(&name, e)]
    }

    fn mutate_stmt(&mut self, d: u32) -> Vec<J> {
        let ls = self.vars_of(|t| *t == Ty::ListInt);
        let ds = self.vars_of(|t| *t == Ty::DictSI);
        if (ls.is_empty() && ds.is_empty()) || self.rng.chance(1, 10) {
            return self.new_var_stmt(d);
        }
        if !ls.is_empty() && (ds.is_empty() || self.rng.chance(2, 3)) {
            let l = self.pick(&ls);
            let lv = var(&l.name);
            let s = match self.rng.below(10) {
                0 | 1 => json!({"k": "expr", "e": mcall(lv, "append", vec![self.expr(&Ty::Int, d)])}),
                2 => json!({"k": "expr", "e": mcall(lv, "extend", vec![self.int_iterable(d)])}),
                3 => json!({"k": "expr", "e": mcall(lv, "insert", vec![int(self.pick(&[0i64, 1, -1, 5, -5])), self.expr(&Ty::Int, d)])}),
                4 => json!({"k": "if", "c": lv.clone(), "then": [{"k": "expr", "e": callf("emit", vec![mcall(lv, "pop", vec![])])}], "else": []}),
                5 => json!({"k": "aug", "op": "+", "tg": {"k": "var", "n": l.name}, "e": self.expr(&Ty::ListInt, d)}),
                6 => json!({"k": "if", "c": lv.clone(), "then": [{"k": "assign", "tg": {"k": "index", "e": lv, "i": int(self.pick(&[0i64, -1]))}, "e": self.expr(&Ty::Int, d)}], "else": []}),
                7 => json!({"k": "if", "c": lv.clone(), "then": [{"k": "aug", "op": self.pick(&["+", "-", "*"]), "tg": {"k": "index", "e": lv, "i": int(0)}, "e": int(self.small_int())}], "else": []}),
                8 => {
                    // alias
                    let n = self.fresh("v");
                    self.declare(&n, Ty::ListInt);
                    assign(&n, lv)
                }
                _ => json!({"k": "expr", "e": mcall(lv, self.pick(&["clear", "pop", "remove"]), if self.rng.chance(1, 2) { vec![] } else { vec![int(0)] })}),
            };
            vec![s]
        } else {
            let dd = self.pick(&ds);
            let dv = var(&dd.name);
            let k = strlit(self.pick(KEYS));
            let s = match self.rng.below(8) {
                0 | 1 => json!({"k": "assign", "tg": {"k": "index", "e": dv, "i": k}, "e": self.expr(&Ty::Int, d)}),
                2 => json!({"k": "expr", "e": callf("emit", vec![mcall(dv, "pop", vec![k, int(-1)])])}),
                3 => json!({"k": "expr", "e": callf("emit", vec![mcall(dv, "setdefault", vec![k, self.expr(&Ty::Int, d)])])}),
                4 => {
                    let mut c = match self.rng.below(3) {
                        0 => mcall(dv, "update", vec![self.expr(&Ty::DictSI, d)]),
                        1 => mcall(dv, "update", vec![json!({"k": "list", "items": [tuple(vec![strlit(self.pick(KEYS)), self.expr(&Ty::Int, d)])]})]),
                        _ => mcall(dv, "update", vec![]),
                    };
                    if self.rng.chance(1, 2) {
                        c["named"] = json!([named(self.pick(KEYS), self.expr(&Ty::Int, d)), named("zz", int(0))]);
                    }
                    json!({"k": "expr", "e": c})
                }
                6 if self.dialect => json!({"k": "if", "c": dv.clone(), "then": [emit(mcall(dv, "popitem", vec![]))], "else": []}),
                5 => json!({"k": "if", "c": bin("in", k.clone(), dv.clone()), "then": [{"k": "aug", "op": "+", "tg": {"k": "index", "e": dv, "i": k}, "e": int(1)}], "else": []}),
                _ => json!({"k": "expr", "e": mcall(dv, "clear", vec![])}),
            };
            vec![s]
        }
    }

    fn emit_stmt(&mut self, d: u32) -> Vec<J> {
        let vs = self.vars_of(|t| !matches!(t, Ty::Fn(_)));
        if !vs.is_empty() && self.rng.chance(1, 2) {
            let v = self.pick(&vs);
            return vec![emit(var(&v.name))];
        }
        let mut tys = vec![Ty::Int, Ty::Str, Ty::Str, Ty::Bool, Ty::ListInt, Ty::DictSI, Ty::ListStr, Ty::TupII, Ty::DictII];
        if self.dialect {
            tys.push(Ty::SetInt);
            tys.push(Ty::StructT);
        }
        if self.typed() {
            tys.push(Ty::RecV);
            tys.push(Ty::EnumV);
        }
        let ty = self.pick(&tys);
        vec![emit(self.expr(&ty, d))]
    }

    fn for_stmt(&mut self, depth: u32) -> Vec<J> {
        // names bound by the loop (target, body locals) are mostly kept out of scope afterwards:
        // the loop may run zero times
        let saved = self.scopes.last().unwrap().clone();
        let keep = self.rng.chance(1, 8);
        let r = self.for_stmt_inner(depth);
        if !keep {
            *self.scopes.last_mut().unwrap() = saved;
        }
        r
    }

    fn for_stmt_inner(&mut self, depth: u32) -> Vec<J> {
        let x = self.fresh("i");
        let (it, ety, tg): (J, Ty, J) = match self.rng.below(6) {
            0 => (self.expr(&Ty::ListStr, 2), Ty::Str, json!({"k": "var", "n": x})),
            1 => (self.expr(&Ty::DictSI, 2), Ty::Str, json!({"k": "var", "n": x})),
            2 => {
                let y = self.fresh("i");
                let l = self.expr(&Ty::ListInt, 2);
                self.declare(&y, Ty::Int);
                (callf("enumerate", vec![l]), Ty::Int, json!({"k": "tuple", "items": [{"k": "var", "n": x}, {"k": "var", "n": y}]}))
            }
            3 => {
                let y = self.fresh("i");
                let dct = self.expr(&Ty::DictSI, 2);
                self.declare(&y, Ty::Int);
                (mcall(dct, "items", vec![]), Ty::Str, json!({"k": "tuple", "items": [{"k": "var", "n": x}, {"k": "var", "n": y}]}))
            }
            _ => (self.int_iterable(2), Ty::Int, json!({"k": "var", "n": x})),
        };
        self.declare(&x, ety);
        self.in_loop += 1;
        let n = 1 + self.rng.below(3) as usize;
        let mut body = self.block(n, depth.saturating_sub(1));
        if self.rng.chance(1, 4) {
            let c = self.expr(&Ty::Bool, 2);
            let k = self.pick(&["break", "continue"]);
            let pos = self.rng.below(body.len() as u64 + 1) as usize;
            body.insert(pos, json!({"k": "if", "c": c, "then": [{"k": k}], "else": []}));
        }
        self.in_loop -= 1;
        vec![json!({"k": "for", "tg": tg, "it": it, "body": body})]
    }

    fn if_stmt(&mut self, depth: u32) -> Vec<J> {
        let c = if self.rng.chance(1, 3) { self.any_sized(2) } else { self.expr(&Ty::Bool, 2) };
        // names assigned in only one branch stay out of scope afterwards: use a child scope view
        let saved = self.scopes.last().unwrap().clone();
        let n1 = 1 + self.rng.below(2) as usize;
        let then = self.block(n1, depth.saturating_sub(1));
        *self.scopes.last_mut().unwrap() = saved.clone();
        let els = if self.rng.chance(1, 2) {
            let n2 = 1 + self.rng.below(2) as usize;
            self.block(n2, depth.saturating_sub(1))
        } else {
            vec![]
        };
        *self.scopes.last_mut().unwrap() = saved;
        vec![json!({"k": "if", "c": c, "then": then, "else": els})]
    }

    fn def_stmt(&mut self, depth: u32) -> Vec<J> {
        let name = self.fresh("f");
        let shape = self.rng.below(6);
        let mut out = Vec::new();
        match shape {
            0 => {
                // plain function of n ints returning an int expression (inlinable shape)
                let n = 1 + self.rng.below(2) as usize;
                let ps: Vec<String> = (0..n).map(|_| self.fresh("p")).collect();
                self.scopes.push(ps.iter().map(|p| Var { name: p.clone(), ty: Ty::Int }).collect());
                self.in_def += 1;
                let body_e = self.expr(&Ty::Int, 2);
                self.in_def -= 1;
                self.scopes.pop();
                let params: Vec<J> = ps.iter().map(|p| param(p, "normal", absent())).collect();
                out.push(json!({"k": "def", "name": name, "params": params, "body": [{"k": "return", "e": body_e}]}));
                self.declare(&name, Ty::Fn(n));
            }
            1 => {
                // defaults, *args, kwonly, **kwargs; returns a tuple describing the binding
                let a = self.fresh("p");
                let b = self.fresh("p");
                let mut params = vec![param(&a, "normal", absent()), param(&b, "normal", self.expr(&Ty::Int, 1))];
                let mut ret = vec![var(&a), var(&b)];
                if self.rng.chance(1, 2) {
                    let r = self.fresh("p");
                    params.push(param(&r, "args", absent()));
                    ret.push(var(&r));
                }
                if self.rng.chance(1, 2) {
                    let k = self.fresh("p");
                    params.push(param(&k, "kwonly", if self.rng.chance(1, 2) { int(5) } else { absent() }));
                    ret.push(var(&k));
                }
                if self.rng.chance(1, 2) {
                    let k = self.fresh("p");
                    params.push(param(&k, "kwargs", absent()));
                    ret.push(var(&k));
                }
                out.push(json!({"k": "def", "name": name, "params": params.clone(), "body": [{"k": "return", "e": {"k": "tuple", "items": ret}}]}));
                // a few calls with assorted shapes, each emitted
                for _ in 0..(1 + self.rng.below(3)) {
                    let mut c = call(var(&name), vec![]);
                    let npos = self.rng.below(4);
                    c["args"] = J::Array((0..npos).map(|_| int(self.small_int())).collect());
                    let mut nm = Vec::new();
                    for p in &params {
                        let pn = p["n"].as_str().unwrap();
                        let kind = p["kind"].as_str().unwrap();
                        if (kind == "normal" || kind == "kwonly") && self.rng.chance(1, 3) {
                            nm.push(named(pn, int(self.small_int())));
                        }
                    }
                    if self.rng.chance(1, 5) {
                        nm.push(named("zz", int(1)));
                    }
                    c["named"] = J::Array(nm);
                    if self.rng.chance(1, 4) {
                        c["star"] = self.expr(&Ty::ListInt, 1);
                    }
                    if self.rng.chance(1, 4) {
                        c["starstar"] = self.expr(&Ty::DictSI, 1);
                    }
                    out.push(emit(c));
                }
            }
            2 => {
                // recursive with decreasing counter
                let n = self.fresh("p");
                let acc = self.fresh("p");
                let rec = call(var(&name), vec![bin("-", var(&n), int(1)), bin("+", var(&acc), json!({"k": "list", "items": [var(&n)]}))]);
                out.push(json!({"k": "def", "name": name, "params": [param(&n, "normal", absent()), param(&acc, "normal", absent())],
                    "body": [{"k": "if", "c": bin("<=", var(&n), int(0)), "then": [{"k": "return", "e": var(&acc)}], "else": []},
                             {"k": "return", "e": rec}]}));
                out.push(emit(call(var(&name), vec![int(self.pick(&[0i64, 1, 3, 6])), json!({"k": "list", "items": []})])));
            }
            3 => {
                // closure mutating a captured list + default evaluated at def time
                let cap = self.vars_of(|t| *t == Ty::ListInt);
                let capn = if cap.is_empty() {
                    let n = self.fresh("v");
                    out.push(assign(&n, json!({"k": "list", "items": []})));
                    self.declare(&n, Ty::ListInt);
                    n
                } else {
                    self.pick(&cap).name
                };
                let p = self.fresh("p");
                let q = self.fresh("p");
                out.push(json!({"k": "def", "name": name, "params": [param(&p, "normal", absent()), param(&q, "normal", callf("len", vec![var(&capn)]))],
                    "body": [{"k": "expr", "e": mcall(var(&capn), "append", vec![bin("+", var(&p), var(&q))])},
                             {"k": "return", "e": callf("len", vec![var(&capn)])}]}));
                out.push(emit(call(var(&name), vec![int(self.small_int())])));
                out.push(emit(var(&capn)));
            }
            4 => {
                // general body with locals, loops, early return
                let p = self.fresh("p");
                self.scopes.push(vec![Var { name: p.clone(), ty: Ty::ListInt }]);
                self.in_def += 1;
                let n = 2 + self.rng.below(3) as usize;
                let mut body = self.block(n, depth.saturating_sub(1));
                let ret_ty = self.pick(&[Ty::Int, Ty::ListInt, Ty::Str]);
                body.push(json!({"k": "return", "e": self.expr(&ret_ty, 2)}));
                self.in_def -= 1;
                self.scopes.pop();
                out.push(json!({"k": "def", "name": name, "params": [param(&p, "normal", absent())], "body": body}));
                out.push(emit(call(var(&name), vec![self.expr(&Ty::ListInt, 2)])));
            }
            _ => {
                // nested def returning an inner closure (counter)
                let inner = self.fresh("g");
                let st = self.fresh("v");
                let p = self.fresh("p");
                out.push(json!({"k": "def", "name": name, "params": [param(&p, "normal", absent())], "body": [
                    {"k": "assign", "tg": {"k": "var", "n": st}, "e": {"k": "list", "items": [var(&p)]}},
                    {"k": "def", "name": inner, "params": [], "body": [
                        {"k": "expr", "e": mcall(var(&st), "append", vec![callf("len", vec![var(&st)])])},
                        {"k": "return", "e": var(&st)}]},
                    {"k": "return", "e": var(&inner)}]}));
                let h = self.fresh("v");
                out.push(assign(&h, call(var(&name), vec![int(self.small_int())])));
                out.push(emit(call(var(&h), vec![])));
                out.push(emit(call(var(&h), vec![])));
            }
        }
        out
    }

    fn unpack_stmt(&mut self, d: u32) -> Vec<J> {
        let a = self.fresh("v");
        let b = self.fresh("v");
        let e = self.expr(&Ty::TupII, d);
        self.declare(&a, Ty::Int);
        self.declare(&b, Ty::Int);
        vec![json!({"k": "assign", "tg": {"k": "tuple", "items": [{"k": "var", "n": a}, {"k": "var", "n": b}]}, "e": e})]
    }

    fn aug_stmt(&mut self, d: u32) -> Vec<J> {
        // only names of the current function/module scope may be rebound
        let vs: Vec<Var> = self.scopes.last().unwrap().iter().filter(|v| v.ty == Ty::Int || v.ty == Ty::Str).cloned().collect();
        if vs.is_empty() {
            return self.new_var_stmt(d);
        }
        let v = self.pick(&vs);
        if v.ty == Ty::Int {
            vec![json!({"k": "aug", "op": self.pick(&["+", "-", "*", "//", "%"]), "tg": {"k": "var", "n": v.name}, "e": int(self.pick(&[1i64, 2, 3, -2]))})]
        } else {
            vec![json!({"k": "aug", "op": "+", "tg": {"k": "var", "n": v.name}, "e": self.expr(&Ty::Str, d)})]
        }
    }

    /// `a[i] op= rhs` where the order load-then-rhs is observable: rhs overwrites the element,
    /// emits, or fails; the load itself may fail.
    fn aug_order_stmt(&mut self) -> Vec<J> {
        let l = self.fresh("v");
        let f = self.fresh("f");
        let is_dict = self.rng.chance(1, 3);
        let (init, good, bad): (J, J, J) = if is_dict {
            (json!({"k": "dict", "keys": [strlit("a"), strlit("b")], "vals": [int(1), int(2)]}), strlit("a"), strlit("nokey"))
        } else {
            (json!({"k": "list", "items": [int(1), int(2), int(3)]}), int(1), int(9))
        };
        let mut out = vec![
            assign(&l, init),
            json!({"k": "def", "name": f, "params": [], "body": [
                {"k": "assign", "tg": {"k": "index", "e": var(&l), "i": good.clone()}, "e": int(100)},
                emit(int(77)),
                {"k": "return", "e": int(10)}]}),
        ];
        self.declare(&l, if is_dict { Ty::DictSI } else { Ty::ListInt });
        let rhs = match self.rng.below(3) {
            0 => call(var(&f), vec![]),
            1 => bin("//", int(1), int(0)),
            _ => bin("+", call(var(&f), vec![]), int(1)),
        };
        let idx = if self.rng.chance(1, 3) { bad } else { good };
        let op = self.pick(&["+", "-", "*"]);
        out.push(json!({"k": "aug", "op": op, "tg": {"k": "index", "e": var(&l), "i": idx}, "e": rhs}));
        out.push(emit(var(&l)));
        out
    }

    /// A comprehension whose clause list is a random sequence of `for` and `if` clauses (several
    /// `if`s in a row, after the first and after later `for`s), every condition traced (`tr`) and the
    /// later ones failing when an earlier guard is false: the clauses must run in source order.
    fn compr_clauses_stmt(&mut self) -> Vec<J> {
        let mut out = Vec::new();
        self.tracer(&mut out);
        let nfor = 1 + self.rng.below(3) as usize;
        let mut clauses: Vec<J> = Vec::new();
        let mut vars: Vec<String> = Vec::new();
        for fi in 0..nfor {
            let v = self.fresh("c");
            let it = if fi > 0 && self.rng.chance(1, 3) {
                // depends on an earlier loop variable
                callf("range", vec![bin("+", var(&vars[fi - 1]), int(1))])
            } else {
                json!({"k": "list", "items": (0..(1 + self.rng.below(3))).map(|_| int(self.pick(&[0i64, 1, 2, 3, 5]))).collect::<Vec<_>>()})
            };
            clauses.push(json!({"k": "for", "tg": {"k": "var", "n": v}, "it": it}));
            vars.push(v.clone());
            let nif = self.rng.below(4);
            for k in 0..nif {
                let x = var(&self.pick(&vars));
                let cond = match (k, self.rng.below(4)) {
                    (0, _) => bin("!=", callf("tr", vec![x]), int(0)),                       // the guard
                    (_, 0) => bin(">", bin("//", int(10), callf("tr", vec![x])), int(1)),    // fails if the guard was skipped
                    (_, 1) => bin("<", callf("tr", vec![bin("*", x, int(10))]), int(25)),
                    (_, 2) => callf("tr", vec![bin("%", int(7), x)]),
                    _ => json!({"k": "not", "e": callf("tr", vec![bin("-", x, int(2))])}),
                };
                clauses.push(json!({"k": "cif", "c": cond}));
            }
        }
        let elt = tuple(vars.iter().map(|v| var(v)).collect());
        let e = if self.rng.chance(1, 3) {
            json!({"k": "dictcompr", "key": elt, "val": callf("tr", vec![var(&vars[0])]), "clauses": clauses})
        } else {
            json!({"k": "compr", "elt": elt, "clauses": clauses})
        };
        out.push(emit(e));
        out
    }

    pub fn stmt(&mut self, depth: u32) -> Vec<J> {
        let w = self.rng.below(100);
        if depth > 0 && self.rng.chance(1, 25) {
            return self.aug_order_stmt();
        }
        if depth > 0 && self.rng.chance(1, 20) {
            return self.compr_clauses_stmt();
        }
        if depth == 0 {
            return if w < 50 { self.emit_stmt(2) } else if w < 80 { self.new_var_stmt(2) } else { self.mutate_stmt(2) };
        }
        if w < 22 {
            self.new_var_stmt(3)
        } else if w < 42 {
            self.emit_stmt(3)
        } else if w < 56 {
            self.mutate_stmt(2)
        } else if w < 66 {
            self.for_stmt(depth)
        } else if w < 74 {
            self.if_stmt(depth)
        } else if w < 86 {
            self.def_stmt(depth)
        } else if w < 90 {
            self.unpack_stmt(2)
        } else if w < 96 {
            self.aug_stmt(2)
        } else if self.in_def > 0 && self.rng.chance(1, 2) {
            vec![json!({"k": "if", "c": self.expr(&Ty::Bool, 2), "then": [{"k": "return", "e": self.expr(&Ty::Int, 2)}], "else": []})]
        } else {
            vec![json!({"k": "expr", "e": self.expr(&Ty::Int, 2)})]
        }
    }

    /// A whole module; with `in_def` the body is wrapped in `def main(): ...` and called.
    pub fn module(&mut self, nstmts: usize, wrap: bool) -> J {
        if self.dialect {
            let pre = self.type_prelude();
            let mut rest = self.module_inner(nstmts, wrap);
            let mut out = pre;
            out.append(rest.as_array_mut().unwrap());
            return J::Array(out);
        }
        self.module_inner(nstmts, wrap)
    }

    fn module_inner(&mut self, nstmts: usize, wrap: bool) -> J {
        if wrap {
            self.scopes.push(vec![]);
            self.in_def += 1;
            let body = self.block(nstmts, 2);
            self.in_def -= 1;
            self.scopes.pop();
            json!([{"k": "def", "name": "main", "params": [], "body": body}, {"k": "expr", "e": call(var("main"), vec![])}])
        } else {
            J::Array(self.block(nstmts, 2))
        }
    }

    /// Statements that build cyclic / aliased / shared structure and garbage (for C03/C04).
    fn gc_stmt(&mut self) -> Vec<J> {
        let ls = self.vars_of(|t| *t == Ty::ListInt);
        match self.rng.below(21) {
            19 | 20 if self.typed() => {
                // record instances holding containers (one shared with a module variable), the default
                // list shared by every instance, an enum value as a dict key
                let sh = self.fresh("rl");
                let r = self.fresh("rr");
                let h = self.fresh("rh");
                let mut mk = call(var("RecT"), vec![]);
                mk["named"] = json!([named("n", int(self.small_int())), named("l", var(&sh))]);
                let mut mk2 = call(var("RecT"), vec![]);
                mk2["named"] = json!([named("n", int(2))]);
                let key = callf("EnumT", vec![strlit("b")]);
                let t = self.fresh("tmp");
                vec![assign(&sh, self.expr(&Ty::ListInt, 2)),
                     assign(&r, mk),
                     assign(&h, json!({"k": "dict", "keys": [key.clone()], "vals": [json!({"k": "list", "items": [var(&r), dot(var("EnumT"), "c")]})]})),
                     assign(&t, callf("len", vec![json!({"k": "compr", "elt": json!({"k": "list", "items": [var("q_"), var("q_")]}), "clauses": [
                        {"k": "for", "tg": {"k": "var", "n": "q_"}, "it": callf("range", vec![int(130)])}]})])),
                     json!({"k": "expr", "e": mcall(dot(var(&r), "l"), "append", vec![int(77)])}),
                     json!({"k": "expr", "e": mcall(dot(mk2.clone(), "l"), "append", vec![var(&t)])}),
                     emit(tuple(vec![var(&r), var(&sh), dot(mk2, "l")])),
                     emit(json!({"k": "index", "e": var(&h), "i": key}))]
            }
            16 | 17 => {
                // a container filled, then EMPTIED IN PLACE (it keeps its storage) while aliased from
                // other containers; collections may happen while it is empty; then it is mutated
                // through one reference and read through the others
                let b = self.fresh("eb");
                let v = self.fresh("ev");
                let d = self.fresh("ed");
                let kind = self.rng.below(3);
                let (init, empty, refill): (J, Vec<J>, J) = match kind {
                    0 => (json!({"k": "list", "items": [int(1), int(2), int(3)]}),
                          if self.rng.chance(1, 2) { vec![json!({"k": "expr", "e": mcall(var(&b), "clear", vec![])})] }
                          else { (0..3).map(|_| json!({"k": "expr", "e": mcall(var(&b), "pop", vec![])})).collect() },
                          json!({"k": "expr", "e": mcall(var(&b), "append", vec![int(4)])})),
                    1 => (json!({"k": "dict", "keys": [strlit("a"), strlit("b")], "vals": [int(1), int(2)]}),
                          if self.rng.chance(1, 2) { vec![json!({"k": "expr", "e": mcall(var(&b), "clear", vec![])})] }
                          else { vec![json!({"k": "expr", "e": mcall(var(&b), "pop", vec![strlit("a")])}), json!({"k": "expr", "e": mcall(var(&b), "pop", vec![strlit("b")])})] },
                          json!({"k": "assign", "tg": {"k": "index", "e": var(&b), "i": strlit("z")}, "e": int(4)})),
                    _ => (callf("set", vec![json!({"k": "list", "items": [int(1), int(2)]})]),
                          vec![json!({"k": "expr", "e": mcall(var(&b), "clear", vec![])})],
                          json!({"k": "expr", "e": mcall(var(&b), "add", vec![int(4)])})),
                };
                let mut out = vec![assign(&b, init),
                                   assign(&v, json!({"k": "list", "items": [var(&b), tuple(vec![var(&b)])]})),
                                   assign(&d, json!({"k": "dict", "keys": [strlit("q")], "vals": [var(&b)]}))];
                out.extend(empty);
                // garbage and a few safepoints while it is empty
                let t = self.fresh("tmp");
                out.push(assign(&t, callf("len", vec![json!({"k": "compr", "elt": json!({"k": "list", "items": [var("q_"), var("q_")]}), "clauses": [
                        {"k": "for", "tg": {"k": "var", "n": "q_"}, "it": callf("range", vec![int(120)])}]})])));
                out.push(emit(var(&t)));
                out.push(refill);
                out.push(emit(tuple(vec![var(&v), var(&d), var(&b)])));
                if kind == 0 {
                    self.declare(&b, Ty::ListInt);
                }
                out
            }
            11 => {
                // bound methods kept alive alone: the receiver is reachable only through them
                let l = self.fresh("bl");
                let m = self.fresh("bm");
                let g = self.fresh("bg");
                let recv = json!({"k": "list", "items": [json!({"k": "list", "items": [int(self.small_int())]}), strlit("e")]});
                let drecv = json!({"k": "dict", "keys": [strlit("k")], "vals": [json!({"k": "list", "items": [int(1), strlit("v")]})]});
                vec![assign(&m, dot(json!({"k": "index", "e": {"k": "list", "items": [recv]}, "i": int(0)}), "pop")),
                     assign(&g, dot(json!({"k": "index", "e": {"k": "list", "items": [drecv]}, "i": int(0)}), "get")),
                     assign(&l, callf("len", vec![json!({"k": "compr", "elt": json!({"k": "list", "items": [var("q_"), var("q_")]}), "clauses": [
                        {"k": "for", "tg": {"k": "var", "n": "q_"}, "it": callf("range", vec![int(150)])}]})])),
                     emit(call(var(&m), vec![])),
                     emit(call(var(&g), vec![strlit("k")])),
                     emit(call(var(&m), vec![])),
                     emit(var(&l))]
            }
            12 => {
                // struct fields holding containers (one shared), a set of tuples, a struct as a dict key
                let sh = self.fresh("sl");
                let st = self.fresh("st");
                let d = self.fresh("sd");
                let mut c = call(var("struct"), vec![]);
                c["named"] = json!([named("p", var(&sh)), named("q", json!({"k": "dict", "keys": [strlit("k")], "vals": [var(&sh)]})),
                                    named("r", callf("set", vec![json!({"k": "list", "items": [tuple(vec![int(1), strlit("a")]), tuple(vec![int(2), strlit("b")])]})]))]);
                let mut k = call(var("struct"), vec![]);
                k["named"] = json!([named("a", int(1)), named("b", tuple(vec![int(2), int(3)]))]);
                vec![assign(&sh, self.expr(&Ty::ListInt, 2)), assign(&st, c),
                     json!({"k": "expr", "e": mcall(dot(var(&st), "p"), "append", vec![int(77)])}),
                     assign(&d, json!({"k": "dict", "keys": [k.clone()], "vals": [var(&st)]})),
                     emit(var(&st)), emit(json!({"k": "index", "e": var(&d), "i": k}))]
            }
            13 => {
                // a lambda with a default holding a fresh container, and a closure over a loop variable
                let f = self.fresh("lf");
                let p = self.fresh("p");
                let g = self.fresh("lg");
                let x = self.fresh("c");
                vec![assign(&f, json!({"k": "lambda", "params": [param(&p, "normal", json!({"k": "list", "items": [int(self.small_int()), strlit("d")]}))], "body": var(&p)})),
                     assign(&g, json!({"k": "compr", "elt": json!({"k": "lambda", "params": [], "body": tuple(vec![var(&x), json!({"k": "list", "items": [var(&x)]})])}),
                        "clauses": [{"k": "for", "tg": {"k": "var", "n": x}, "it": callf("range", vec![int(3)])}]})),
                     json!({"k": "expr", "e": mcall(call(var(&f), vec![]), "append", vec![int(9)])}),
                     emit(call(var(&f), vec![])),
                     emit(json!({"k": "compr", "elt": call(var("h_"), vec![]), "clauses": [{"k": "for", "tg": {"k": "var", "n": "h_"}, "it": var(&g)}]}))]
            }
            0 => {
                // a list containing itself, and an alias of it
                let n = self.fresh("cy");
                let a = self.fresh("cy");
                vec![assign(&n, json!({"k": "list", "items": [int(self.small_int())]})),
                     json!({"k": "expr", "e": mcall(var(&n), "append", vec![var(&n)])}),
                     assign(&a, var(&n)),
                     emit(var(&a))]
            }
            9 | 10 => {
                // a cycle that passes through a tuple and is reachable only through the tuple
                let t = self.fresh("tc");
                let via_dict = self.rng.chance(1, 3);
                if via_dict {
                    vec![assign(&t, json!({"k": "tuple", "items": [{"k": "dict", "keys": [strlit("k")], "vals": [int(1)]}, int(self.small_int())]})),
                         json!({"k": "assign", "tg": {"k": "index", "e": {"k": "index", "e": var(&t), "i": int(0)}, "i": strlit("me")}, "e": var(&t)}),
                         emit(callf("len", vec![var(&t)]))]
                } else {
                    vec![assign(&t, json!({"k": "tuple", "items": [{"k": "list", "items": [int(1), int(2)]}]})),
                         json!({"k": "expr", "e": mcall(json!({"k": "index", "e": var(&t), "i": int(0)}), "append", vec![var(&t)])}),
                         emit(var(&t))]
                }
            }
            1 => {
                // dict of lists sharing one list twice
                let sh = self.fresh("sh");
                let d = self.fresh("sh");
                vec![assign(&sh, self.expr(&Ty::ListInt, 2)),
                     assign(&d, json!({"k": "dict", "keys": [strlit("p"), strlit("q")], "vals": [var(&sh), var(&sh)]})),
                     json!({"k": "expr", "e": mcall(json!({"k": "index", "e": var(&d), "i": strlit("p")}), "append", vec![int(42)])}),
                     emit(var(&d))]
            }
            2 => {
                // garbage: a big temporary
                let t = self.fresh("tmp");
                let x = self.fresh("c");
                vec![assign(&t, callf("len", vec![json!({"k": "compr", "elt": json!({"k": "list", "items": [var(&x), var(&x)]}), "clauses": [
                        {"k": "for", "tg": {"k": "var", "n": x}, "it": callf("range", vec![int(self.pick(&[50i64, 200, 400]))])}]})])),
                     emit(var(&t))]
            }
            3 => {
                // closure capturing a list; called later
                let cap = self.fresh("cap");
                let f = self.fresh("f");
                let s = vec![assign(&cap, self.expr(&Ty::ListInt, 2)),
                     json!({"k": "def", "name": f, "params": [], "body": [
                        {"k": "expr", "e": mcall(var(&cap), "append", vec![callf("len", vec![var(&cap)])])},
                        {"k": "return", "e": var(&cap)}]}),
                     emit(call(var(&f), vec![]))];
                self.declare(&cap, Ty::ListInt);
                self.declare(&f, Ty::Fn(0));
                s
            }
            4 => {
                // host-provided value: read, mutate through the alias the host also stored in extra_value
                vec![json!({"k": "expr", "e": mcall(var("hostv"), "append", vec![self.expr(&Ty::Int, 2)])}),
                     emit(var("hostv"))]
            }
            5 => {
                // top-level if (safepoints inside)
                let c = self.expr(&Ty::Bool, 2);
                let a = self.emit_stmt(2);
                let b = self.mutate_stmt(2);
                vec![json!({"k": "if", "c": c, "then": [a[0].clone(), b[0].clone()], "else": [a[0].clone()]})]
            }
            6 if !ls.is_empty() => {
                // nested structure holding existing lists
                let l = self.pick(&ls);
                let n = self.fresh("ns");
                vec![assign(&n, json!({"k": "tuple", "items": [var(&l.name), json!({"k": "list", "items": [var(&l.name), strlit("s")]})]})),
                     emit(var(&n))]
            }
            7 => {
                // call an earlier zero-arg closure again
                let fs = self.vars_of(|t| *t == Ty::Fn(0));
                if fs.is_empty() { self.emit_stmt(2) } else { let f = self.pick(&fs); vec![emit(call(var(&f.name), vec![]))] }
            }
            _ => self.stmt(2),
        }
    }

    /// A module for GC/freeze checks: many top-level statements, never wrapped in a def
    /// (safepoints exist only at module level). `hostv` is bound by the embedder.
    pub fn module_gc(&mut self, nstmts: usize) -> J {
        self.fail_rate = 3;
        self.dialect = true;
        self.declare("hostv", Ty::ListAny);
        let mut out = self.type_prelude();
        for _ in 0..nstmts {
            let s = if self.rng.chance(1, 2) { self.gc_stmt() } else { self.stmt(2) };
            out.extend(s);
        }
        // final sweep: emit every live variable
        let vs = self.vars_of(|t| !matches!(t, Ty::Fn(_)));
        for v in vs {
            out.push(emit(var(&v.name)));
        }
        J::Array(out)
    }

    /// Statements aimed at what the optimiser looks at (C02): constant conditions, foldable
    /// operations that fail, small inlinable functions with odd arguments, variables assigned
    /// once vs twice, short-circuits around failing operands, discarded pure expressions.
    fn opt_stmt(&mut self) -> Vec<J> {
        let t = json!({"k": "bool", "b": true});
        let f = json!({"k": "bool", "b": false});
        let boom = |g: &mut Gen| -> J {
            match g.rng.below(7) {
                5 => json!({"k": "neg", "e": strlit("ab")}),
                6 => json!({"k": "inv", "e": strlit("")}),
                0 => bin("//", int(1), int(0)),
                1 => bin("%", int(5), int(0)),
                2 => json!({"k": "index", "e": {"k": "list", "items": [int(1)]}, "i": int(3)}),
                3 => bin("+", int(1), strlit("a")),
                _ => json!({"k": "index", "e": {"k": "dict", "keys": [strlit("a")], "vals": [int(1)]}, "i": strlit("zz")}),
            }
        };
        match self.rng.below(22) {
            12 | 13 | 14 => self.inline_order_stmt(),
            19 => self.annotated_stmt(),
            20 => self.typeis_stmt(),
            15 => self.assigned_shapes_stmt(),
            16 => self.bool_simplify_stmt(),
            17 => self.known_method_stmt(),
            18 => self.speculative_stmt(),
            0 => {
                let b = boom(self);
                vec![json!({"k": "if", "c": f, "then": [emit(b)], "else": [emit(int(1))]})]
            }
            1 => {
                let b = boom(self);
                let n = self.fresh("f");
                // never called: the failing constant expression must not surface
                vec![json!({"k": "def", "name": n, "params": [], "body": [{"k": "return", "e": b}]}), emit(int(2))]
            }
            2 => {
                let b = boom(self);
                let n = self.fresh("f");
                vec![json!({"k": "def", "name": n, "params": [], "body": [{"k": "return", "e": b}]}),
                     emit(int(3)), emit(call(var(&n), vec![]))]
            }
            3 => {
                let b = boom(self);
                let op = self.pick(&["and", "or"]);
                let l = if op == "and" { f.clone() } else { t.clone() };
                vec![emit(json!({"k": op, "l": l, "r": b}))]
            }
            4 => {
                let b = boom(self);
                let op = self.pick(&["and", "or"]);
                let l = if op == "and" { t.clone() } else { f.clone() };
                vec![emit(int(4)), emit(json!({"k": op, "l": l, "r": b}))]
            }
            5 => {
                // inlinable identity-like function with a possibly-unassigned argument
                let h = self.fresh("f");
                let o = self.fresh("f");
                let a = self.fresh("p");
                let c = self.fresh("p");
                let y = self.fresh("v");
                vec![json!({"k": "def", "name": h, "params": [param(&a, "normal", absent())], "body": [{"k": "return", "e": var(&a)}]}),
                     json!({"k": "def", "name": o, "params": [param(&c, "normal", absent())], "body": [
                        {"k": "if", "c": var(&c), "then": [{"k": "assign", "tg": {"k": "var", "n": y}, "e": int(1)}], "else": []},
                        {"k": "return", "e": call(var(&h), vec![var(&y)])}]}),
                     emit(call(var(&o), vec![t.clone()])),
                     emit(call(var(&o), vec![if self.rng.chance(1, 2) { f.clone() } else { t.clone() }]))]
            }
            6 => {
                // module variable assigned once vs twice, read from a function
                let v = self.fresh("v");
                let g = self.fresh("f");
                let mut out = vec![assign(&v, int(self.small_int()))];
                out.push(json!({"k": "def", "name": g, "params": [], "body": [{"k": "return", "e": bin("+", var(&v), int(1))}]}));
                out.push(emit(call(var(&g), vec![])));
                if self.rng.chance(1, 2) {
                    out.push(assign(&v, strlit("s")));
                    out.push(emit(call(var(&g), vec![])));
                }
                self.declare(&v, Ty::Any);
                out
            }
            7 => {
                // type(x) == "..." and len of constants
                let x = self.any_sized(1);
                let tn = self.pick(&["int", "string", "list", "dict", "tuple"]);
                vec![emit(bin("==", callf("type", vec![x.clone()]), strlit(tn))), emit(callf("len", vec![x]))]
            }
            8 => {
                // loop over empty literal; discarded pure expressions with effects inside
                let i = self.fresh("i");
                let l = self.vars_of(|t| *t == Ty::ListInt);
                let mut out = vec![json!({"k": "for", "tg": {"k": "var", "n": i}, "it": {"k": "list", "items": []}, "body": [emit(int(9))]})];
                if !l.is_empty() {
                    let v = self.pick(&l);
                    out.push(json!({"k": "expr", "e": {"k": "list", "items": [mcall(var(&v.name), "append", vec![int(5)]), int(1)]}}));
                    out.push(json!({"k": "expr", "e": {"k": "tuple", "items": [int(1), mcall(var(&v.name), "append", vec![int(6)])]}}));
                    out.push(emit(var(&v.name)));
                }
                out
            }
            9 => {
                // constant arithmetic / string / list folding
                let e = match self.rng.below(5) {
                    0 => bin("*", strlit("ab"), int(self.pick(&[0i64, 1, 3, -1]))),
                    1 => bin("+", json!({"k": "list", "items": [int(1)]}), json!({"k": "list", "items": [int(2), int(3)]})),
                    2 => json!({"k": "slice", "e": strlit("abcdef"), "lo": int(1), "hi": int(-1), "st": int(2)}),
                    3 => mcall(strlit("a,b"), "split", vec![strlit(",")]),
                    _ => bin("in", int(2), json!({"k": "list", "items": [int(1), int(2)]})),
                };
                vec![emit(e)]
            }
            10 => {
                // small function called with constants and with locals, twice (inline + not)
                let g = self.fresh("f");
                let a = self.fresh("p");
                let b = self.fresh("p");
                let body = bin(self.pick(&["+", "-", "*", "//", "%"]), var(&a), var(&b));
                vec![json!({"k": "def", "name": g, "params": [param(&a, "normal", absent()), param(&b, "normal", int(2))], "body": [{"k": "return", "e": body}]}),
                     emit(call(var(&g), vec![int(self.small_int())])),
                     emit(call(var(&g), vec![int(self.small_int()), int(self.pick(&[0i64, 1, 3]))]))]
            }
            _ => self.stmt(2),
        }
    }

    /// the tracer `tr(v)`: emits v and returns it (defined on first use)
    fn tracer(&mut self, out: &mut Vec<J>) {
        if self.vars_of(|_| true).iter().any(|v| v.name == "tr") {
            return;
        }
        out.push(json!({"k": "def", "name": "tr", "params": [param("v", "normal", absent())],
            "body": [emit(var("v")), {"k": "return", "e": var("v")}]}));
        self.scopes[0].push(Var { name: "tr".to_owned(), ty: Ty::Fn(1) });
    }

    /// Small functions of the shapes the inliner accepts (a single `return` of an expression over
    /// the parameters) called with arguments whose evaluation is observable (`tr(..)`) or fails:
    /// every argument must be evaluated exactly once, in source order, before the body's effect,
    /// whether or not the parameter is used.
    fn inline_order_stmt(&mut self) -> Vec<J> {
        let mut out = Vec::new();
        self.tracer(&mut out);
        let f = self.fresh("f");
        let a = self.fresh("p");
        let b = self.fresh("p");
        let body = match self.rng.below(12) {
            0 => int(self.small_int()),
            1 => var(&a),
            2 => var(&b),
            3 => tuple(vec![var(&b), var(&a)]),
            4 => json!({"k": "list", "items": [var(&a), var(&b), var(&a)]}),
            5 => bin(self.pick(&["+", "-", "*", "//", "%", "==", "<", "and_", "in_"]).trim_end_matches('_'), var(&a), var(&b)),
            6 => callf("type", vec![var(&b)]),
            7 => json!({"k": "dict", "keys": [strlit("k")], "vals": [var(&b)]}),
            8 => mcall(strlit(self.pick(&["<{}>", "{0}{0}", "{!r}", "plain"])), "format", vec![var(&a)]),
            9 => bin("%", strlit(self.pick(&["<%s>", "%r", "%d", "%s%%"])), var(&b)),
            10 => json!({"k": "if", "c": var(&a), "t": var(&b), "f": int(0)}),
            _ => callf("len", vec![var(&b)]),
        };
        let body = if body["k"] == "bin" && (body["op"] == "and" || body["op"] == "in") {
            if body["op"] == "and" { json!({"k": "and", "l": var(&a), "r": var(&b)}) } else { bin("in", var(&a), json!({"k": "list", "items": [var(&b)]})) }
        } else { body };
        let dflt = if self.rng.chance(1, 3) { callf("tr", vec![int(50)]) } else { absent() };
        let d = json!({"k": "def", "name": f, "params": [param(&a, "normal", absent()), param(&b, "normal", dflt.clone())],
            "body": [{"k": "return", "e": body}]});
        if self.hoist && self.in_def > 0 && dflt["k"] == "absent" && self.rng.chance(1, 2) {
            self.hoisted.push(d);
        } else {
            out.push(d);
        }
        let vals: Vec<J> = vec![int(self.small_int()), strlit(self.pick(&["ab", "", "x y"])), json!({"k": "list", "items": [int(1)]}),
                               tuple(vec![int(1), int(2)]), tuple(vec![int(7)]), none(), json!({"k": "bool", "b": false})];
        let boom = bin("//", int(1), int(0));
        for _ in 0..(1 + self.rng.below(3)) {
            let x = callf("tr", vec![self.pick(&vals)]);
            let y = callf("tr", vec![self.pick(&vals)]);
            let c = match self.rng.below(8) {
                0 => call(var(&f), vec![x, y]),
                1 => {
                    let mut c = call(var(&f), vec![]);
                    c["named"] = json!([named(&b, x), named(&a, y)]);
                    c
                }
                2 => {
                    let mut c = call(var(&f), vec![x]);
                    c["named"] = json!([named(&b, y)]);
                    c
                }
                3 => {
                    let mut c = call(var(&f), vec![]);
                    c["star"] = json!({"k": "list", "items": [x, y]});
                    c
                }
                4 => call(var(&f), vec![x, boom.clone()]),
                5 => call(var(&f), vec![boom.clone(), y]),
                6 if dflt["k"] != "absent" => call(var(&f), vec![x]),
                _ => {
                    // through a variable, so that the callee is not known at the call site
                    let h = self.fresh("v");
                    out.push(assign(&h, json!({"k": "list", "items": [var(&f)]})));
                    call(json!({"k": "index", "e": var(&h), "i": int(0)}), vec![x, y])
                }
            };
            out.push(emit(c));
        }
        out
    }

    /// `def f(<one parameter>): return type(x) == "..."` is rewritten at the call site into a type
    /// test: every way of declaring the one parameter x every way of calling -- the call rules still apply
    fn typeis_stmt(&mut self) -> Vec<J> {
        let f = self.fresh("f");
        let x = self.fresh("p");
        let kind = self.pick(&["normal", "kwonly", "normal_default", "kwonly_default", "args", "kwargs"]);
        let p = match kind {
            "normal" => param(&x, "normal", absent()),
            "kwonly" => param(&x, "kwonly", absent()),
            "normal_default" => param(&x, "normal", int(3)),
            "kwonly_default" => param(&x, "kwonly", strlit("d")),
            "args" => param(&x, "args", absent()),
            _ => param(&x, "kwargs", absent()),
        };
        let tn = self.pick(&["int", "string", "tuple", "dict", "NoneType"]);
        let d = json!({"k": "def", "name": f, "params": [p],
            "body": [{"k": "return", "e": bin("==", callf("type", vec![var(&x)]), strlit(tn))}]});
        let mut out = Vec::new();
        if self.hoist && self.in_def > 0 && self.rng.chance(2, 3) {
            self.hoisted.push(d);
        } else {
            out.push(d);
        }
        for _ in 0..(2 + self.rng.below(3)) {
            let v = self.pick(&[int(1), strlit("s"), none(), tuple(vec![int(1)])]);
            let c = match self.rng.below(6) {
                0 | 1 => call(var(&f), vec![v]),
                2 => {
                    let mut c = call(var(&f), vec![]);
                    c["named"] = json!([named(&x, v)]);
                    c
                }
                3 => call(var(&f), vec![]),
                4 => call(var(&f), vec![v, int(2)]),
                _ => {
                    let mut c = call(var(&f), vec![]);
                    c["named"] = json!([named("other", v)]);
                    c
                }
            };
            out.push(emit(c));
        }
        out
    }

    /// a type for annotations, with a value that belongs to it and one that does not
    fn ann_type(&mut self) -> (J, J, J) {
        let li = |xs: Vec<J>| json!({"k": "list", "items": xs});
        match self.rng.below(12) {
            0 => (tname("int"), int(self.small_int()), json!({"k": "bool", "b": true})),
            1 => (tname("str"), strlit("s"), int(1)),
            2 => (tname("bool"), json!({"k": "bool", "b": false}), int(0)),
            3 => (tname("None"), none(), int(0)),
            4 => (tname("list"), li(vec![strlit("a"), int(1)]), tuple(vec![int(1)])),
            5 => (json!({"k": "tlist", "a": tname("int")}), li(vec![int(1), int(2)]), li(vec![int(1), strlit("x")])),
            6 => (json!({"k": "tdict", "a": tname("str"), "b": tname("int")}), json!({"k": "dict", "keys": [strlit("k")], "vals": [int(1)]}),
                  json!({"k": "dict", "keys": [strlit("k")], "vals": [strlit("v")]})),
            7 => (json!({"k": "ttupleof", "a": tname("int")}), tuple(vec![int(1), int(2)]), tuple(vec![int(1), none()])),
            8 => (json!({"k": "tunion", "items": [tname("int"), tname("None")]}), none(), strlit("")),
            9 => (tname("any"), li(vec![]), li(vec![])),       // nothing mismatches Any
            10 => (tname("callable"), var("len"), int(3)),
            _ => (tname("iterable"), tuple(vec![]), strlit("abc")),
        }
    }

    /// functions with run-time checked annotations (parameters, defaults, return type), in the shapes
    /// the inliner accepts and in general ones, called with values inside and outside the types
    fn annotated_stmt(&mut self) -> Vec<J> {
        let mut out = Vec::new();
        self.tracer(&mut out);
        let f = self.fresh("f");
        let a = self.fresh("p");
        let b = self.fresh("p");
        let (ta, ga, ba) = self.ann_type();
        let (tb, gb, bb) = self.ann_type();
        let (tr_, gr, br) = self.ann_type();
        // the default of b: inside its type, or (rarely) outside: the def itself must fail
        let dflt = if self.rng.chance(1, 8) { bb.clone() } else { gb.clone() };
        let ret_ok = self.rng.chance(2, 3);
        let body = match self.rng.below(3) {
            0 => vec![json!({"k": "return", "e": if ret_ok { gr.clone() } else { br.clone() }})],
            1 => vec![json!({"k": "if", "c": var(&a), "then": [{"k": "return", "e": gr.clone()}], "else": []}),
                      json!({"k": "return", "e": if ret_ok { gr.clone() } else { br.clone() }})],
            _ => vec![emit(tuple(vec![var(&a), var(&b)])), json!({"k": "return", "e": if ret_ok { gr.clone() } else { br.clone() }})],
        };
        let kind_b = if self.rng.chance(1, 3) { "kwonly" } else { "normal" };
        let with_ret = self.rng.chance(2, 3);
        let mut d = json!({"k": "def", "name": f, "params": [param_ty(&a, "normal", absent(), ta), param_ty(&b, kind_b, dflt, tb)], "body": body});
        if with_ret {
            d["ret"] = tr_;
        }
        out.push(d);
        for _ in 0..(1 + self.rng.below(3)) {
            let x = callf("tr", vec![if self.rng.chance(3, 4) { ga.clone() } else { ba.clone() }]);
            let y = callf("tr", vec![if self.rng.chance(3, 4) { gb.clone() } else { bb.clone() }]);
            let c = match self.rng.below(4) {
                0 => call(var(&f), vec![x]),
                1 if kind_b == "normal" => call(var(&f), vec![x, y]),
                2 => {
                    let mut c = call(var(&f), vec![]);
                    c["named"] = json!([named(&b, y), named(&a, x)]);
                    c
                }
                _ => {
                    let mut c = call(var(&f), vec![x]);
                    c["named"] = json!([named(&b, y)]);
                    c
                }
            };
            out.push(emit(c));
        }
        out
    }

    /// locals that are assigned on some paths only: reading one that was not assigned must fail
    /// ("referenced before assignment") exactly when the path taken did not assign it
    fn assigned_shapes_stmt(&mut self) -> Vec<J> {
        let f = self.fresh("f");
        let c = self.fresh("p");
        let y = self.fresh("v");
        let i = self.fresh("i");
        let body: Vec<J> = match self.rng.below(6) {
            0 => vec![json!({"k": "for", "tg": {"k": "var", "n": i}, "it": var(&c), "body": [assign(&y, var(&i))]}),
                      json!({"k": "return", "e": var(&y)})],
            1 => vec![json!({"k": "for", "tg": {"k": "var", "n": i}, "it": var(&c), "body": [
                          {"k": "if", "c": bin(">", var(&i), int(1)), "then": [{"k": "break"}], "else": []}, assign(&y, var(&i))]}),
                      json!({"k": "return", "e": var(&y)})],
            2 => vec![json!({"k": "if", "c": var(&c), "then": [assign(&y, int(1))], "else": [{"k": "pass"}]}),
                      json!({"k": "return", "e": tuple(vec![int(0), var(&y)])})],
            3 => vec![json!({"k": "if", "c": {"k": "bool", "b": false}, "then": [assign(&y, int(1))], "else": []}),
                      json!({"k": "if", "c": var(&c), "then": [assign(&y, int(2))], "else": []}),
                      json!({"k": "return", "e": var(&y)})],
            4 => {
                let g = self.fresh("g");
                vec![json!({"k": "def", "name": g, "params": [], "body": [{"k": "return", "e": var(&y)}]}),
                     json!({"k": "if", "c": var(&c), "then": [assign(&y, int(3))], "else": []}),
                     json!({"k": "return", "e": call(var(&g), vec![])})]
            }
            _ => vec![json!({"k": "if", "c": var(&c), "then": [{"k": "return", "e": int(0)}], "else": []}),
                      emit(var(&y)), assign(&y, int(4)), json!({"k": "return", "e": var(&y)})],
        };
        let args: Vec<J> = vec![json!({"k": "list", "items": []}), json!({"k": "list", "items": [int(1), int(2), int(3)]}), json!({"k": "list", "items": [int(5)]})];
        let mut out = vec![json!({"k": "def", "name": f, "params": [param(&c, "normal", absent())], "body": body})];
        out.push(emit(call(var(&f), vec![self.pick(&args)])));
        out.push(emit(call(var(&f), vec![self.pick(&args)])));
        out
    }

    /// boolean contexts with constant operands: `x and True` is x, not True; `not` of comparisons
    fn bool_simplify_stmt(&mut self) -> Vec<J> {
        let t = json!({"k": "bool", "b": true});
        let f = json!({"k": "bool", "b": false});
        let x = self.any_sized(1);
        let e = match self.rng.below(10) {
            0 => json!({"k": "and", "l": x, "r": t}),
            1 => json!({"k": "or", "l": x, "r": f}),
            2 => json!({"k": "and", "l": t, "r": x}),
            3 => json!({"k": "or", "l": f, "r": x}),
            4 => json!({"k": "not", "e": {"k": "not", "e": x}}),
            5 => json!({"k": "not", "e": bin(self.pick(&["==", "!=", "in", "notin"]), x.clone(), json!({"k": "list", "items": [x]}))}),
            6 => json!({"k": "if", "c": {"k": "not", "e": x}, "t": int(1), "f": int(2)}),
            7 => json!({"k": "and", "l": {"k": "or", "l": x.clone(), "r": int(0)}, "r": {"k": "or", "l": none(), "r": x}}),
            8 => json!({"k": "if", "c": {"k": "and", "l": t, "r": {"k": "not", "e": x}}, "t": strlit("y"), "f": strlit("n")}),
            _ => json!({"k": "or", "l": {"k": "and", "l": x.clone(), "r": f}, "r": {"k": "not", "e": x}}),
        };
        let mut out = vec![emit(e.clone())];
        if self.rng.chance(1, 2) {
            out.push(json!({"k": "if", "c": e, "then": [emit(int(1))], "else": [emit(int(0))]}));
        }
        out
    }

    /// a method name the compiler knows (`append`, `format`, ...) on a receiver that is not what
    /// the fast path expects: a struct field holding a function, a value without that method
    fn known_method_stmt(&mut self) -> Vec<J> {
        let mut out = Vec::new();
        self.tracer(&mut out);
        let s = self.fresh("v");
        let name = self.pick(&["append", "format", "get", "upper", "keys", "pop"]);
        let p = self.fresh("p");
        let lam = json!({"k": "lambda", "params": [param(&p, "normal", int(3))], "body": tuple(vec![strlit(name), var(&p)])});
        let mut c = call(var("struct"), vec![]);
        c["named"] = json!([named(name, lam)]);
        out.push(assign(&s, c));
        out.push(emit(mcall(var(&s), name, if self.rng.chance(1, 2) { vec![callf("tr", vec![int(1)])] } else { vec![] })));
        // the same name on values that do or do not have it
        let recv = match self.rng.below(5) {
            0 => int(1),
            1 => none(),
            2 => strlit("s{}"),
            3 => json!({"k": "list", "items": [int(1)]}),
            _ => json!({"k": "dict", "keys": [strlit("a")], "vals": [int(1)]}),
        };
        out.push(emit(mcall(recv, name, vec![callf("tr", vec![strlit("a")])])));
        out
    }

    /// pure builtins and methods applied to constants (evaluated speculatively at compile time):
    /// results and failures must be those of run time, at the place where they happen
    fn speculative_stmt(&mut self) -> Vec<J> {
        let e = match self.rng.below(14) {
            0 => callf("len", vec![strlit(self.pick(WORDS))]),
            1 => mcall(strlit(self.pick(WORDS)), self.pick(&["upper", "title", "strip", "capitalize", "isdigit"]), vec![]),
            2 => mcall(strlit("{} {}"), "format", vec![int(1)]),
            3 => bin("%", strlit("%d"), strlit("x")),
            4 => callf("int", vec![strlit(self.pick(&["12", "x", ""]))]),
            5 => callf("type", vec![tuple(vec![int(1)])]),
            6 => mcall(strlit("a,b"), "split", vec![strlit(self.pick(&[",", "b"]))]),
            7 => callf("str", vec![json!({"k": "list", "items": [int(1), strlit("a")]})]),
            8 => callf("sorted", vec![json!({"k": "list", "items": [int(2), strlit("a")]})]),
            9 => callf("max", vec![json!({"k": "list", "items": []})]),
            10 => callf("chr", vec![int(self.pick(&[97i64, -1]))]),
            11 => callf("ord", vec![strlit(self.pick(&["a", "ab"]))]),
            12 => callf("range", vec![int(1), int(5), int(0)]),
            _ => mcall(strlit("abc"), "index", vec![strlit(self.pick(&["b", "z"]))]),
        };
        let f = self.fresh("f");
        match self.rng.below(4) {
            0 => vec![emit(e)],
            1 => vec![json!({"k": "def", "name": f, "params": [], "body": [{"k": "return", "e": e}]}), emit(int(1)), emit(call(var(&f), vec![]))],
            2 => vec![json!({"k": "def", "name": f, "params": [], "body": [{"k": "return", "e": e}]}), emit(int(2))],
            _ => vec![json!({"k": "if", "c": {"k": "bool", "b": false}, "then": [emit(e.clone())], "else": [emit(int(3))]}), emit(e)],
        }
    }

    pub fn module_opt(&mut self, nstmts: usize, wrap: bool) -> J {
        self.dialect = true;
        let pre = self.type_prelude();
        let mut rest = self.module_opt_inner(nstmts, wrap);
        let mut out = pre;
        out.append(rest.as_array_mut().unwrap());
        J::Array(out)
    }

    fn module_opt_inner(&mut self, nstmts: usize, wrap: bool) -> J {
        let mut gen_block = |g: &mut Gen| -> Vec<J> {
            let mut out = Vec::new();
            for _ in 0..nstmts {
                let s = if g.rng.chance(1, 2) { g.opt_stmt() } else { g.stmt(2) };
                out.extend(s);
            }
            out
        };
        if wrap {
            self.scopes.push(vec![]);
            self.in_def += 1;
            self.hoist = true;
            let body = gen_block(self);
            self.hoist = false;
            self.in_def -= 1;
            self.scopes.pop();
            let mut out = std::mem::take(&mut self.hoisted);
            out.push(json!({"k": "def", "name": "main", "params": [], "body": body}));
            out.push(json!({"k": "expr", "e": call(var("main"), vec![])}));
            J::Array(out)
        } else {
            J::Array(gen_block(self))
        }
    }
}

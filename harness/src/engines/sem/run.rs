//! Running source text on the real evaluator: a native `emit(x)` records the structural
//! encoding of `x` at the moment of emission; the outcome is mapped to an abstract error kind.

use std::cell::RefCell;

use serde_json::json;
use serde_json::Value as J;
use starlark::environment::Globals;
use starlark::environment::GlobalsBuilder;
use starlark::environment::Module;
use starlark::eval::Evaluator;
use starlark::starlark_module;
use starlark::syntax::AstModule;
use starlark::syntax::Dialect;
use starlark::values::dict::DictRef;
use starlark::values::list::ListRef;
use starlark::values::none::NoneType;
use starlark::values::tuple::TupleRef;
use starlark::values::Value;

thread_local! {
    pub static OUT: RefCell<Vec<J>> = const { RefCell::new(Vec::new()) };
}

pub fn encode(v: Value, path: &mut Vec<usize>) -> J {
    encode_h(v, path, None)
}

/// `heap` is needed to iterate values that only offer the generic iteration protocol (sets).
pub fn encode_h<'v>(v: Value<'v>, path: &mut Vec<usize>, heap: Option<starlark::values::Heap<'v>>) -> J {
    if v.is_none() {
        return json!({"t": "none"});
    }
    if let Some(b) = v.unpack_bool() {
        return json!({"t": "bool", "b": b});
    }
    if let Some(i) = v.unpack_i32() {
        return json!({"t": "int", "v": i});
    }
    if let Some(s) = v.unpack_str() {
        return json!({"t": "str", "s": s.chars().map(|c| c as u32).collect::<Vec<_>>()});
    }
    let ty = v.get_type();
    if ty == "int" {
        return json!({"t": "int", "v": 0, "big": v.to_repr()});
    }
    if let Some(t) = TupleRef::from_value(v) {
        return json!({"t": "tuple", "v": t.content().iter().map(|x| encode_h(*x, path, heap)).collect::<Vec<_>>()});
    }
    let id = v.ptr_value_for_verif();
    if let Some(l) = ListRef::from_value(v) {
        if path.contains(&id) {
            return json!({"t": "cycle"});
        }
        path.push(id);
        let r = json!({"t": "list", "v": l.content().iter().map(|x| encode_h(*x, path, heap)).collect::<Vec<_>>()});
        path.pop();
        return r;
    }
    if let Some(d) = DictRef::from_value(v) {
        if path.contains(&id) {
            return json!({"t": "cycle"});
        }
        path.push(id);
        let ks: Vec<J> = d.iter().map(|(k, _)| encode_h(k, path, heap)).collect();
        let vs: Vec<J> = d.iter().map(|(_, x)| encode_h(x, path, heap)).collect();
        path.pop();
        return json!({"t": "dict", "k": ks, "v": vs});
    }
    if ty == "set" {
        if let Some(h) = heap {
            if path.contains(&id) {
                return json!({"t": "cycle"});
            }
            if let Ok(it) = v.iterate(h) {
                path.push(id);
                let items: Vec<J> = it.map(|x| encode_h(x, path, heap)).collect();
                path.pop();
                return json!({"t": "set", "v": items});
            }
        }
    }
    if let Some(st) = starlark::values::structs::StructRef::from_value(v) {
        // immutable, so no cycle can pass through it without passing through a list/dict
        let ks: Vec<J> = st.iter().map(|(k, _)| json!(k.as_str().chars().map(|c| c as u32).collect::<Vec<_>>())).collect();
        let vs: Vec<J> = st.iter().map(|(_, x)| encode_h(x, path, heap)).collect();
        return json!({"t": "struct", "k": ks, "v": vs});
    }
    if ty == "record" || ty == "enum" {
        // instances of record / enum types are compared through their repr (type name + fields)
        return json!({"t": "repr", "s": v.to_repr().chars().map(|c| c as u32).collect::<Vec<_>>()});
    }
    if ty == "range" {
        // repr: range(a, b) or range(a, b, c) or range(b)
        let r = v.to_repr();
        let inner = r.trim_start_matches("range(").trim_end_matches(')');
        let nums: Vec<i64> = inner.split(',').filter_map(|x| x.trim().parse().ok()).collect();
        let (a, b, c) = match nums.len() {
            1 => (0, nums[0], 1),
            2 => (nums[0], nums[1], 1),
            3 => (nums[0], nums[1], nums[2]),
            _ => (0, 0, 0),
        };
        return json!({"t": "range", "v": [a, b, c]});
    }
    if ty == "function" {
        // repr is "<function NAME>"? keep just the name
        let r = v.to_repr();
        let name = r.trim_start_matches("<function ").trim_end_matches('>').to_owned();
        return json!({"t": "fn", "name": name});
    }
    if ty == "builtin_function_or_method" || ty == "native_function" {
        let r = v.to_repr();
        let name = r.trim_start_matches("<native function ").trim_start_matches("<built-in function ").trim_end_matches('>').to_owned();
        let name = name.rsplit('.').next().unwrap_or("").to_owned();
        return json!({"t": "fn", "name": name});
    }
    json!({"t": "?", "type": ty, "repr": v.to_repr()})
}

trait PtrForVerif {
    fn ptr_value_for_verif(self) -> usize;
}

impl<'v> PtrForVerif for Value<'v> {
    fn ptr_value_for_verif(self) -> usize {
        // identity of the heap object, used only for cycle detection on the current path
        let id = self.identity();
        let s = format!("{:?}", id);
        let mut h: usize = 1469598103934665603;
        for b in s.bytes() {
            h = (h ^ b as usize).wrapping_mul(1099511628211);
        }
        h
    }
}

#[starlark_module]
fn emit_module(builder: &mut GlobalsBuilder) {
    fn emit<'v>(x: Value<'v>, heap: starlark::values::Heap<'v>) -> anyhow::Result<NoneType> {
        let e = encode_h(x, &mut Vec::new(), Some(heap));
        OUT.with(|o| o.borrow_mut().push(e));
        Ok(NoneType)
    }
}

pub fn globals() -> Globals {
    use starlark::environment::LibraryExtension as L;
    GlobalsBuilder::extended_by(&[
        L::StructType, L::RecordType, L::EnumType, L::NamespaceType, L::Map, L::Filter, L::Partial,
        L::Debug, L::Print, L::Pprint, L::Pstr, L::Prepr, L::Json, L::Typing, L::Internal, L::CallStack, L::SetType,
    ])
    .with(emit_module)
    .build()
}

pub fn dialect() -> Dialect {
    Dialect::AllOptionsInternal
}

/// Map an error message to an abstract kind (see DESIGN.md appendix A). Unknown -> "other".
pub fn classify(msg: &str) -> &'static str {
    const TABLE: &[(&str, &str)] = &[
        ("division by zero", "div0"),
        ("Division by zero", "div0"),
        ("divide by zero", "div0"),
        ("modulo by zero", "div0"),
        ("Modulo by zero", "div0"),
        ("does not match the type annotation", "type"),
        ("Unknown enum element", "value"),
        ("Record instance cannot be created", "value"),
        ("enum values must all be distinct", "value"),
        ("Not enough parameters in format string", "index"),
        ("for format string", "format"),
        ("Incomplete format", "format"),
        ("Unsupported format character", "format"),
        ("Cannot mix manual field", "format"),
        ("in format string", "format"),
        ("inside replacement field", "format"),
        ("Dictionary key repeated", "value"),
        ("Substring", "value"),
        ("Empty separator", "value"),
        ("Negative left shift", "value"),
        ("Negative right shift", "value"),
        ("as an integer", "value"),
        ("chr() parameter", "value"),
        ("is not a single character string", "value"),
        ("ord(): expected string", "type"),
        ("Cannot .popitem()", "value"),
        ("Operation `.", "attr"),
        ("out of bound", "index"),
        ("Index out of bound", "index"),
        ("Element", "value"),
        ("not found in", "key"),
        ("Key `", "key"),
        ("key not found", "key"),
        ("not hashable", "not_hashable"),
        ("referenced before assignment", "unbound"),
        ("Variable `", "unbound"),
        ("Unpacked", "value"),
        ("unpack", "value"),
        ("Missing positional-only parameter", "arity"),
        ("Missing named-only parameter", "arity"),
        ("Missing parameter", "arity"),
        ("Wrong number of positional", "arity"),
        ("Missing required parameter", "arity"),
        ("Missing positional", "arity"),
        ("extra positional", "arity"),
        ("Extra positional", "arity"),
        ("extra named", "arity"),
        ("Extra named", "arity"),
        ("Found `", "arity"),
        ("occurs both", "arity"),
        ("occurs more than once", "arity"),
        ("Argument `", "arity"),
        ("Immutable", "immutable"),
        ("immutable", "immutable"),
        ("frozen", "immutable"),
        ("while iterating", "iter_mutation"),
        ("mutably borrowed", "iter_mutation"),
        ("fail:", "fail"),
        ("call stack", "depth"),
        ("recursion", "depth"),
        ("ticks", "ticks"),
        ("cancelled", "cancelled"),
        ("Cancelled", "cancelled"),
        ("has no attribute", "attr"),
        ("Object of type `", "attr"),
        ("not supported", "type"),
        ("Type of parameter", "type"),
        ("Expected type", "type"),
        ("expected `", "type"),
        ("Expected `", "type"),
        ("not iterable", "type"),
        ("is not callable", "type"),
        ("Cannot compare", "type"),
        ("cannot be compared", "type"),
        ("Type of parameters mismatch", "type"),
        ("Value of type", "type"),
        ("Operation `", "type"),
        ("not in list", "value"),
        ("not found in list", "value"),
        ("Element", "value"),
        ("empty", "value"),
        ("step cannot be 0", "value"),
        ("Third argument of range (step) cannot be zero", "value"),
        ("slice step cannot be zero", "value"),
        ("Integer overflow", "overflow"),
        ("overflow", "overflow"),
    ];
    for (pat, kind) in TABLE {
        if msg.contains(pat) {
            return kind;
        }
    }
    "other"
}

pub struct Outcome {
    pub out: Vec<J>,
    pub kind: String,
    pub line: u64,
    pub msg: String,
    pub parse_error: bool,
}

pub fn err_of(e: &starlark::Error) -> (String, u64, String) {
    let msg = format!("{}", e.without_diagnostic());
    let kind = match e.kind() {
        starlark::ErrorKind::Fail(_) => "fail",
        starlark::ErrorKind::StackOverflow(_) => "depth",
        _ => classify(&msg),
    };
    let line = e.span().map(|s| s.resolve_span().begin.line as u64 + 1).unwrap_or(0);
    (kind.to_owned(), line, msg)
}

/// Evaluate one module from source text on a fresh Module + Evaluator.
pub fn run_source(src: &str, globals: &Globals) -> Outcome {
    OUT.with(|o| o.borrow_mut().clear());
    let ast = match AstModule::parse("prog.star", src.to_owned(), &dialect()) {
        Ok(a) => a,
        Err(e) => {
            let (_, line, msg) = err_of(&e);
            return Outcome { out: vec![], kind: "parse".to_owned(), line, msg, parse_error: true };
        }
    };
    let r = Module::with_temp_heap(|module| {
        let mut eval = Evaluator::new(&module);
        match eval.eval_module(ast, globals) {
            Ok(_) => Ok(()),
            Err(e) => Err(err_of(&e)),
        }
    });
    let out = OUT.with(|o| std::mem::take(&mut *o.borrow_mut()));
    match r {
        Ok(()) => Outcome { out, kind: String::new(), line: 0, msg: String::new(), parse_error: false },
        Err((kind, line, msg)) => Outcome { out, kind, line, msg, parse_error: false },
    }
}

//! AST (JSON) -> source text. One statement per line, four-space indentation, every
//! sub-expression fully parenthesised (precedence is C06's business, not this engine's).
//! Printing assigns `line` to every node (statement line; expressions inherit it).

use serde_json::json;
use serde_json::Value as J;

pub fn cp_to_string(cp: &J) -> String {
    cp.as_array()
        .map(|a| a.iter().map(|c| char::from_u32(c.as_u64().unwrap_or(63) as u32).unwrap_or('?')).collect())
        .unwrap_or_default()
}

pub fn str_to_cp(s: &str) -> J {
    J::Array(s.chars().map(|c| json!(c as u32)).collect())
}

fn fnv(s: &str, salt: u64) -> u64 {
    let mut h: u64 = 0xcbf29ce484222325 ^ salt.wrapping_mul(0x9e3779b97f4a7c15);
    for b in s.bytes() {
        h = (h ^ b as u64).wrapping_mul(0x100000001b3);
    }
    h ^ (h >> 29)
}

/// A string literal denoting `s`, in one of the spellings the lexer accepts (chosen by a hash of
/// the content and the line, so printing is deterministic): plain double quotes, single quotes,
/// \xNN / \uNNNN / \UNNNNNNNN / octal escapes for every character, triple quotes, raw.  The
/// VALUE is always `s`: the specification never sees the spelling (the lexer's escape handling is
/// under test, not the specification).
fn spell_str(s: &str, line: u64) -> String {
    let h = fnv(s, line);
    let plain_ok = s.chars().all(|c| (' '..='~').contains(&c) && c != '\\' && c != '"' && c != '\'');
    match h % 16 {
        0 | 1 => {
            // single quotes
            let mut o = String::from("'");
            for c in s.chars() {
                match c {
                    '\'' => o.push_str("\\'"),
                    '\\' => o.push_str("\\\\"),
                    '\n' => o.push_str("\\n"),
                    '\t' => o.push_str("\\t"),
                    '\r' => o.push_str("\\r"),
                    c => o.push(c),
                }
            }
            o.push('\'');
            o
        }
        2 if s.chars().all(|c| (c as u32) < 0x100) => format!("\"{}\"", s.chars().map(|c| format!("\\x{:02x}", c as u32)).collect::<String>()),
        3 if s.chars().all(|c| (c as u32) < 0x10000) => format!("\"{}\"", s.chars().map(|c| format!("\\u{:04X}", c as u32)).collect::<String>()),
        4 => format!("'{}'", s.chars().map(|c| format!("\\U{:08x}", c as u32)).collect::<String>()),
        5 if s.chars().all(|c| (c as u32) < 0x100) => format!("\"{}\"", s.chars().map(|c| format!("\\{:03o}", c as u32)).collect::<String>()),
        6 if !s.ends_with('"') => {
            let q = quote(s);
            format!("\"\"\"{}\"\"\"", &q[1..q.len() - 1])
        }
        7 if plain_ok => format!("r\"{}\"", s),
        8 if plain_ok => format!("r'{}'", s),
        9 if !s.ends_with('\'') => {
            // triple single quotes
            let mut o = String::from("\'\'\'");
            for c in s.chars() {
                match c {
                    '\'' => o.push_str("\\'"),
                    '\n' => o.push_str("\\n"),
                    '\\' => o.push_str("\\\\"),
                    '\t' => o.push_str("\\t"),
                    '\r' => o.push_str("\\r"),
                    c => o.push(c),
                }
            }
            o.push_str("\'\'\'");
            o
        }
        _ => quote(s),
    }
}

/// An integer literal denoting `v` (decimal, hex, octal or binary; always parenthesised).
fn spell_int(v: i64, line: u64) -> String {
    let h = fnv(&v.to_string(), line);
    let a = v.unsigned_abs();
    let sign = if v < 0 { "-" } else { "" };
    match h % 12 {
        0 => format!("({}0x{:x})", sign, a),
        1 => format!("({}0X{:X})", sign, a),
        2 => format!("({}0o{:o})", sign, a),
        3 => format!("({}0b{:b})", sign, a),
        _ => format!("({})", v),
    }
}

fn quote(s: &str) -> String {
    let mut o = String::from("\"");
    for c in s.chars() {
        match c {
            '"' => o.push_str("\\\""),
            '\\' => o.push_str("\\\\"),
            '\n' => o.push_str("\\n"),
            '\t' => o.push_str("\\t"),
            '\r' => o.push_str("\\r"),
            c => o.push(c),
        }
    }
    o.push('"');
    o
}

fn absent(e: &J) -> bool {
    e["k"] == "absent"
}

/// a type annotation
pub fn ty(t: &J) -> String {
    match t["k"].as_str().unwrap_or("") {
        "tname" => match t["n"].as_str().unwrap() {
            "any" => "typing.Any".to_owned(),
            "callable" => "typing.Callable".to_owned(),
            "iterable" => "typing.Iterable".to_owned(),
            n => n.to_owned(),
        },
        "tlist" => format!("list[{}]", ty(&t["a"])),
        "tdict" => format!("dict[{}, {}]", ty(&t["a"]), ty(&t["b"])),
        "ttupleof" => format!("tuple[{}, ...]", ty(&t["a"])),
        "tunion" => t["items"].as_array().unwrap().iter().map(ty).collect::<Vec<_>>().join(" | "),
        k => panic!("bad type kind {}", k),
    }
}

fn has_ty(p: &J) -> bool {
    p.get("ty").map(|t| t["k"] != "absent").unwrap_or(false)
}

pub fn params(ps: &mut J, line: u64) -> String {
    let mut out = Vec::new();
    let mut seen_star = false;
    for p in ps.as_array_mut().unwrap() {
        let n = p["n"].as_str().unwrap().to_owned();
        let kind = p["kind"].as_str().unwrap().to_owned();
        let d = if absent(&p["d"]) { None } else { Some(expr(&mut p["d"], line)) };
        let n = if has_ty(p) { format!("{}: {}", n, ty(&p["ty"])) } else { n };
        match kind.as_str() {
            "args" => {
                seen_star = true;
                out.push(format!("*{}", n));
            }
            "kwargs" => out.push(format!("**{}", n)),
            "kwonly" => {
                if !seen_star {
                    seen_star = true;
                    out.push("*".to_owned());
                }
                out.push(match d {
                    Some(d) => format!("{} = {}", n, d),
                    None => n,
                });
            }
            _ => out.push(match d {
                Some(d) => format!("{} = {}", n, d),
                None => n,
            }),
        }
    }
    out.join(", ")
}

pub fn target(t: &mut J, line: u64) -> String {
    t["line"] = json!(line);
    match t["k"].as_str().unwrap() {
        "var" => t["n"].as_str().unwrap().to_owned(),
        "tuple" => {
            let items: Vec<String> = t["items"].as_array_mut().unwrap().iter_mut().map(|x| target(x, line)).collect();
            format!("({}{})", items.join(", "), if items.len() == 1 { "," } else { "" })
        }
        "index" => {
            let e = expr(&mut t["e"], line);
            let i = expr(&mut t["i"], line);
            format!("{}[{}]", e, i)
        }
        k => panic!("bad target {}", k),
    }
}

fn args(e: &mut J, line: u64, with_star: bool) -> String {
    let mut a: Vec<String> = e["args"].as_array_mut().unwrap().iter_mut().map(|x| expr(x, line)).collect();
    for n in e["named"].as_array_mut().unwrap() {
        let v = expr(&mut n["e"], line);
        a.push(format!("{} = {}", n["n"].as_str().unwrap(), v));
    }
    if with_star {
        if !absent(&e["star"]) {
            a.push(format!("*{}", expr(&mut e["star"], line)));
        }
        if !absent(&e["starstar"]) {
            a.push(format!("**{}", expr(&mut e["starstar"], line)));
        }
    }
    a.join(", ")
}

fn clauses(cl: &mut J, line: u64) -> String {
    let mut o = String::new();
    for c in cl.as_array_mut().unwrap() {
        c["line"] = json!(line);
        if c["k"] == "for" {
            let t = target(&mut c["tg"], line);
            let it = expr(&mut c["it"], line);
            o.push_str(&format!(" for {} in {}", t, it));
        } else {
            o.push_str(&format!(" if {}", expr(&mut c["c"], line)));
        }
    }
    o
}

pub fn expr(e: &mut J, line: u64) -> String {
    e["line"] = json!(line);
    let k = e["k"].as_str().unwrap().to_owned();
    match k.as_str() {
        // always parenthesised: `3.upper()` and `3 .real` are not what `(3).upper()` is
        "int" => spell_int(e["v"].as_i64().unwrap(), line),
        "str" => spell_str(&cp_to_string(&e["s"]), line),
        "none" => "None".to_owned(),
        "bool" => if e["b"].as_bool().unwrap() { "True".to_owned() } else { "False".to_owned() },
        "var" => e["n"].as_str().unwrap().to_owned(),
        "tuple" => {
            let items: Vec<String> = e["items"].as_array_mut().unwrap().iter_mut().map(|x| expr(x, line)).collect();
            format!("({}{})", items.join(", "), if items.len() == 1 { "," } else { "" })
        }
        "list" => {
            let items: Vec<String> = e["items"].as_array_mut().unwrap().iter_mut().map(|x| expr(x, line)).collect();
            format!("[{}]", items.join(", "))
        }
        "dict" => {
            let ks: Vec<String> = e["keys"].as_array_mut().unwrap().iter_mut().map(|x| expr(x, line)).collect();
            let vs: Vec<String> = e["vals"].as_array_mut().unwrap().iter_mut().map(|x| expr(x, line)).collect();
            let items: Vec<String> = ks.iter().zip(vs.iter()).map(|(k, v)| format!("{}: {}", k, v)).collect();
            format!("{{{}}}", items.join(", "))
        }
        "not" => format!("(not {})", expr(&mut e["e"], line)),
        "neg" => format!("(-{})", expr(&mut e["e"], line)),
        "pos" => format!("(+{})", expr(&mut e["e"], line)),
        "inv" => format!("(~{})", expr(&mut e["e"], line)),
        "and" => {
            let l = expr(&mut e["l"], line);
            let r = expr(&mut e["r"], line);
            format!("({} and {})", l, r)
        }
        "or" => {
            let l = expr(&mut e["l"], line);
            let r = expr(&mut e["r"], line);
            format!("({} or {})", l, r)
        }
        "if" => {
            let c = expr(&mut e["c"], line);
            let t = expr(&mut e["t"], line);
            let f = expr(&mut e["f"], line);
            format!("({} if {} else {})", t, c, f)
        }
        "bin" => {
            let op = e["op"].as_str().unwrap().to_owned();
            let l = expr(&mut e["l"], line);
            let r = expr(&mut e["r"], line);
            let op = if op == "notin" { "not in".to_owned() } else { op };
            format!("({} {} {})", l, op, r)
        }
        "index" => {
            let c = expr(&mut e["e"], line);
            let i = expr(&mut e["i"], line);
            format!("{}[{}]", c, i)
        }
        "slice" => {
            let c = expr(&mut e["e"], line);
            let lo = if absent(&e["lo"]) { String::new() } else { expr(&mut e["lo"], line) };
            let hi = if absent(&e["hi"]) { String::new() } else { expr(&mut e["hi"], line) };
            if absent(&e["st"]) {
                format!("{}[{}:{}]", c, lo, hi)
            } else {
                let st = expr(&mut e["st"], line);
                format!("{}[{}:{}:{}]", c, lo, hi, st)
            }
        }
        "lambda" => {
            let p = params(&mut e["params"], line);
            let b = expr(&mut e["body"], line);
            format!("(lambda {}: {})", p, b)
        }
        "compr" => {
            let elt = expr(&mut e["elt"], line);
            let cl = clauses(&mut e["clauses"], line);
            format!("[{}{}]", elt, cl)
        }
        "dictcompr" => {
            let k = expr(&mut e["key"], line);
            let v = expr(&mut e["val"], line);
            let cl = clauses(&mut e["clauses"], line);
            format!("{{{}: {}{}}}", k, v, cl)
        }
        "call" => {
            let f = expr(&mut e["f"], line);
            let a = args(e, line, true);
            format!("{}({})", f, a)
        }
        "mcall" => {
            let o = expr(&mut e["obj"], line);
            let a = args(e, line, false);
            format!("{}.{}({})", o, e["name"].as_str().unwrap(), a)
        }
        "dot" => {
            let o = expr(&mut e["e"], line);
            format!("{}.{}", o, e["name"].as_str().unwrap())
        }
        "fstr" => {
            // f"lit0{n1}lit1..." ; literal braces are doubled
            let lits: Vec<String> = e["lits"].as_array().unwrap().iter().map(cp_to_string).collect();
            let names: Vec<String> = e["names"].as_array().unwrap().iter().map(|n| n.as_str().unwrap().to_owned()).collect();
            let mut o = String::new();
            for (i, l) in lits.iter().enumerate() {
                let q = quote(&l.replace('{', "{{").replace('}', "}}"));
                o.push_str(&q[1..q.len() - 1]);
                if i < names.len() {
                    o.push_str(&format!("{{{}}}", names[i]));
                }
            }
            format!("f\"{}\"", o)
        }
        k => panic!("bad expr kind {}", k),
    }
}

pub struct Printer {
    pub out: String,
    pub line: u64,
}

impl Printer {
    pub fn new() -> Printer {
        Printer { out: String::new(), line: 0 }
    }

    fn emit_line(&mut self, indent: usize, s: &str) -> u64 {
        self.line += 1;
        for _ in 0..indent {
            self.out.push_str("    ");
        }
        self.out.push_str(s);
        self.out.push('\n');
        self.line
    }

    pub fn block(&mut self, stmts: &mut J, indent: usize) {
        let arr = stmts.as_array_mut().unwrap();
        if arr.is_empty() {
            arr.push(json!({"k": "pass"}));
        }
        for s in arr.iter_mut() {
            self.stmt(s, indent);
        }
    }

    pub fn stmt(&mut self, s: &mut J, indent: usize) {
        let line = self.line + 1;
        s["line"] = json!(line);
        let k = s["k"].as_str().unwrap().to_owned();
        match k.as_str() {
            "expr" => {
                let e = expr(&mut s["e"], line);
                self.emit_line(indent, &e);
            }
            "assign" => {
                let t = target(&mut s["tg"], line);
                let e = expr(&mut s["e"], line);
                self.emit_line(indent, &format!("{} = {}", t, e));
            }
            "aug" => {
                let t = target(&mut s["tg"], line);
                let e = expr(&mut s["e"], line);
                self.emit_line(indent, &format!("{} {}= {}", t, s["op"].as_str().unwrap(), e));
            }
            "if" => {
                let c = expr(&mut s["c"], line);
                self.emit_line(indent, &format!("if {}:", c));
                self.block(&mut s["then"], indent + 1);
                if !s["else"].as_array().unwrap().is_empty() {
                    self.emit_line(indent, "else:");
                    self.block(&mut s["else"], indent + 1);
                }
            }
            "for" => {
                let t = target(&mut s["tg"], line);
                let it = expr(&mut s["it"], line);
                self.emit_line(indent, &format!("for {} in {}:", t, it));
                self.block(&mut s["body"], indent + 1);
            }
            "break" => {
                self.emit_line(indent, "break");
            }
            "continue" => {
                self.emit_line(indent, "continue");
            }
            "pass" => {
                self.emit_line(indent, "pass");
            }
            "return" => {
                if absent(&s["e"]) {
                    self.emit_line(indent, "return");
                } else {
                    let e = expr(&mut s["e"], line);
                    self.emit_line(indent, &format!("return {}", e));
                }
            }
            "def" => {
                let p = params(&mut s["params"], line);
                let ret = if s.get("ret").map(|t| t["k"] != "absent").unwrap_or(false) { format!(" -> {}", ty(&s["ret"])) } else { String::new() };
                self.emit_line(indent, &format!("def {}({}){}:", s["name"].as_str().unwrap(), p, ret));
                self.block(&mut s["body"], indent + 1);
            }
            k => panic!("bad stmt kind {}", k),
        }
    }
}

/// Print a module; assigns lines in place. Returns the source text.
pub fn module(stmts: &mut J) -> String {
    let mut p = Printer::new();
    p.block(stmts, 0);
    p.out
}

//! C14: determinism across runs, processes and memory layouts.
//! For each program of a seeded corpus produce ONE observation string covering everything
//! observable: transcript, full error text (with call stack and suggestions), lint and
//! type-checker output.  The driver runs this in several differently configured processes;
//! Determinism.tla requires all observations of a program to be equal.

use std::collections::HashMap;

use serde_json::json;
use serde_json::Value as J;
use starlark::analysis::AstModuleLint;
use starlark::environment::Module;
use starlark::eval::Evaluator;
use starlark::syntax::AstModule;
use starlark::typing::AstModuleTypecheck;

use super::sem::gen;
use super::sem::print;
use super::sem::run;
use crate::util;

/// Source text appended to every generated program: observable things outside Sem's subset.
fn det_tail(rng: &mut util::Rng) -> String {
    let mut s = String::new();
    let names = ["zeta", "alpha", "mid", "beta", "omega", "kappa", "delta", "gamma", "eps", "iota"];
    let mut fields: Vec<String> = Vec::new();
    for (i, n) in names.iter().enumerate() {
        if rng.chance(3, 4) {
            fields.push(format!("{} = {}", n, i));
        }
    }
    s.push_str(&format!("st = struct({})\n", fields.join(", ")));
    s.push_str("emit(str(st))\nemit(dir(st))\nemit(repr([st, st]))\n");
    s.push_str("dd = {}\n");
    for n in names.iter() {
        if rng.chance(2, 3) {
            s.push_str(&format!("dd[\"{}\"] = hash(\"{}\")\n", n, n));
        }
    }
    s.push_str("emit(dd)\nemit(dd.keys())\nemit(json.encode(dd))\nemit(json.decode(json.encode({\"b\": [1, {\"z\": None, \"a\": 1.5}], \"a\": dd})))\n");
    s.push_str("emit(dir([]))\nemit(dir(\"\"))\nemit(dir({}))\n");
    s.push_str("ss = set([\"q\", \"b\", \"zz\", \"a\", 3, 1])\nemit(list(ss))\nemit(str(ss))\nemit(list(set(dd.keys()) | ss))\n");
    s.push_str("def lvl3(x):\n    return lvl_helper_missing_attr(x)\ndef lvl_helper_missing_attr(x):\n    return x.alpa\ndef lvl2(x):\n    return [lvl3(y) for y in [x]]\ndef lvl1(x):\n    return lvl2(x)\n");
    // several independent diagnostics in one scope (never executed): their ORDER is an output of
    // the static checker and of the linter
    s.push_str("def illtyped(q):\n    b1 = [1] + \"y\"\n    c1 = 1 + \"z\"\n    d1 = {} + 1\n    e1 = \"s\" - 1\n    f1 = (1, 2) * \"k\"\n    unused_one = 1\n    unused_two = 2\n    return (b1, c1, d1, e1, f1)\n");
    s.push_str("def illtyped2(q):\n    g1 = q.missing1\n    h1 = len(1, 2)\n    i1 = \"a\".uper()\n    j1 = [].apend(1)\n    return g1\n");
    match rng.below(4) {
        0 => s.push_str("emit(lvl1(st))\n"),
        1 => s.push_str("emit(lvl1(dd))\n"),
        2 => s.push_str("emit(dd[\"zet\"])\n"),
        _ => s.push_str("emit(\"abc\".uper())\n"),
    }
    s
}

/// Small sources whose diagnostics carry a SUGGESTION chosen among several equally good
/// candidates (names at the same edit distance from the misspelt one): which one is shown must not
/// depend on the process (hash seeds, addresses).  Unknown variables are rejected before anything
/// runs, so these are separate sources, each observed on its own (evaluation + static checker).
fn tie_sources(rng: &mut util::Rng) -> Vec<String> {
    let stems = ["total", "item", "cfg", "node", "val"];
    let sufs = ["a", "b", "c", "d", "e", "f", "g", "h"];
    let mut out = Vec::new();
    for shape in 0..7 {
        let stem = stems[rng.below(stems.len() as u64) as usize];
        let k = 2 + rng.below(5) as usize;
        let mut ss: Vec<&str> = sufs.to_vec();
        let mut names: Vec<String> = Vec::new();
        for _ in 0..k {
            let i = rng.below(ss.len() as u64) as usize;
            names.push(format!("{}_{}", stem, ss.remove(i)));
        }
        let miss = format!("{}_x", stem);
        let src = match shape {
            // parameters of one def
            0 => format!("def compute({}):\n    return {}\ncompute({})\n", names.join(", "), miss, names.iter().map(|_| "1").collect::<Vec<_>>().join(", ")),
            // module-level variables
            1 => format!("{}\nemit({})\n", names.iter().map(|n| format!("{} = 1", n)).collect::<Vec<_>>().join("\n"), miss),
            // locals of an enclosing def and of the inner one
            2 => {
                let (outer, inner) = names.split_at(k / 2);
                format!("def outer():\n{}\n    def inner():\n{}\n        return {}\n    return inner()\nouter()\n",
                    outer.iter().map(|n| format!("    {} = 1", n)).collect::<Vec<_>>().join("\n"),
                    if inner.is_empty() { "        pass".to_owned() } else { inner.iter().map(|n| format!("        {} = 2", n)).collect::<Vec<_>>().join("\n") }, miss)
            }
            // attribute of a struct
            3 => format!("st = struct({})\nemit(st.{})\n", names.iter().map(|n| format!("{} = 1", n)).collect::<Vec<_>>().join(", "), miss),
            // several diagnostics of equal rank in one def / across defs: ill-typed assignments to
            // different variables (the order of the report, and which one fails a statically checked
            // evaluation, are outputs)
            5 | 6 => {
                let bad = ["1 + \"x\"", "[] + 1", "\"s\" - 1", "2 + None", "{} + 1", "(1,) + [2]", "None + 1", "\"a\" * \"b\""];
                let mut lines: Vec<String> = Vec::new();
                for (i, n) in names.iter().enumerate() {
                    let e = bad[(i + rng.below(bad.len() as u64) as usize) % bad.len()];
                    if shape == 5 {
                        lines.push(format!("    {} = {}", n, e));
                    } else {
                        lines.push(format!("def fn_{}():\n    {} = {}\n    return {}", n, n, e, n));
                    }
                }
                if shape == 5 {
                    format!("def compute():\n{}\n    return 0\n", lines.join("\n"))
                } else {
                    format!("{}\n", lines.join("\n"))
                }
            }
            // named argument of a def
            _ => format!("def callee({}):\n    return 1\ncallee({} = 1)\n", names.iter().map(|n| format!("{} = 0", n)).collect::<Vec<_>>().join(", "), miss),
        };
        out.push(src);
    }
    out
}

fn observe_static(src: &str, globals: &starlark::environment::Globals) -> J {
    let tc: Vec<String> = match AstModule::parse("tie.star", src.to_owned(), &run::dialect()) {
        Ok(ast) => ast.typecheck(globals, &HashMap::new()).0.into_iter().map(|e| format!("{}", e)).collect(),
        Err(e) => vec![format!("{}", e)],
    };
    run::OUT.with(|o| o.borrow_mut().clear());
    let err = match AstModule::parse("tie.star", src.to_owned(), &run::dialect()) {
        Ok(ast) => Module::with_temp_heap(|module| {
            let mut eval = Evaluator::new(&module);
            match eval.eval_module(ast, globals) {
                Ok(v) => format!("ok: {}", v.to_repr()),
                Err(e) => format!("{}", e),
            }
        }),
        Err(e) => format!("{}", e),
    };
    // the same with the compile-time checker: the error that stops the evaluation
    let err_static = match AstModule::parse("tie.star", src.to_owned(), &run::dialect()) {
        Ok(ast) => Module::with_temp_heap(|module| {
            let mut eval = Evaluator::new(&module);
            eval.enable_static_typechecking(true);
            match eval.eval_module(ast, globals) {
                Ok(v) => format!("ok: {}", v.to_repr()),
                Err(e) => format!("{}", e),
            }
        }),
        Err(e) => format!("{}", e),
    };
    json!({"err": err, "typecheck": tc, "err_static": err_static})
}

fn observe(src: &str, globals: &starlark::environment::Globals) -> J {
    // lint
    let lint: Vec<String> = match AstModule::parse("prog.star", src.to_owned(), &run::dialect()) {
        Ok(ast) => ast.lint(None).into_iter().map(|l| format!("{}", l)).collect(),
        Err(e) => vec![format!("parse error: {}", e)],
    };
    // typecheck
    let tc: Vec<String> = match AstModule::parse("prog.star", src.to_owned(), &run::dialect()) {
        Ok(ast) => {
            let (errs, _map, iface, approx) = ast.typecheck(globals, &HashMap::new());
            let mut v: Vec<String> = errs.into_iter().map(|e| format!("{}", e)).collect();
            // the Interface is a std HashMap: its Debug order is not an output of the checker; query it by name
            let mut names: Vec<String> = vec!["st".into(), "dd".into(), "ss".into(), "lvl1".into(), "lvl2".into(), "main".into()];
            for i in 0..40 {
                names.push(format!("v{}", i));
                names.push(format!("f{}", i));
            }
            for nm in names {
                if let Some(t) = iface.get(&nm) {
                    v.push(format!("{}: {}", nm, t));
                }
            }
            v.extend(approx.into_iter().map(|a| format!("{}", a)));
            v
        }
        Err(_) => vec![],
    };
    // evaluation, full error text
    run::OUT.with(|o| o.borrow_mut().clear());
    let err = match AstModule::parse("prog.star", src.to_owned(), &run::dialect()) {
        Ok(ast) => Module::with_temp_heap(|module| {
            let mut eval = Evaluator::new(&module);
            match eval.eval_module(ast, globals) {
                Ok(v) => format!("ok: {}", v.to_repr()),
                Err(e) => format!("{}", e),
            }
        }),
        Err(e) => format!("{}", e),
    };
    let out = run::OUT.with(|o| std::mem::take(&mut *o.borrow_mut()));
    json!({"out": out, "err": err, "lint": lint, "typecheck": tc})
}

fn fnv(s: &str) -> String {
    let mut h: u64 = 0xcbf29ce484222325;
    for b in s.bytes() {
        h = (h ^ b as u64).wrapping_mul(0x100000001b3);
    }
    format!("{:016x}", h)
}

/// vh record det <out.ndjson> --seed S --n N --cfg LABEL [--noise K] [--thread 1] [--warm 1]
pub fn record(rest: &[String]) -> anyhow::Result<()> {
    let mut out = util::NdWriter::create(&rest[0])?;
    let seed = util::opt_u64(rest, "--seed", 1);
    let n = util::opt_u64(rest, "--n", 50);
    let noise = util::opt_u64(rest, "--noise", 0);
    let thread = util::opt_u64(rest, "--thread", 0) == 1;
    let warm = util::opt_u64(rest, "--warm", 0) == 1;
    let full = util::opt_u64(rest, "--full", 0) == 1;
    let cfg = util::opt(rest, "--cfg").unwrap_or("base").to_owned();
    // pre-allocation noise: perturb the allocator / address space before anything else
    let mut keep: Vec<Vec<u8>> = Vec::new();
    let mut nrng = util::Rng(noise.wrapping_mul(77) + 5);
    for _ in 0..noise {
        let sz = 1 + nrng.below(1 << 16) as usize;
        keep.push(vec![7u8; sz]);
        if nrng.chance(1, 3) {
            keep.pop();
        }
    }
    let work = move || -> anyhow::Result<Vec<J>> {
        let globals = run::globals();
        let mut rows = Vec::new();
        for i in 0..n {
            let mut rng = util::Rng(seed.wrapping_mul(3_000_017).wrapping_add(i));
            let mut ast = {
                let mut g = gen::Gen::new(&mut rng);
                g.set_fail_rate(if i % 3 == 0 { 30 } else { 3 });
                g.set_dialect(true);
                g.module(4 + (i % 6) as usize, i % 2 == 0)
            };
            let mut src = print::module(&mut ast);
            src.push_str(&det_tail(&mut rng));
            if warm && i % 2 == 0 {
                // unrelated evaluation first, in-process
                let _ = util::catch(|| observe("x = [i * i for i in range(100)]\ny = {str(k): k for k in x}\n", &globals));
            }
            let ties = tie_sources(&mut rng);
            let o = match util::catch(|| {
                let mut o = observe(&src, &globals);
                o["ties"] = J::Array(ties.iter().map(|t| observe_static(t, &globals)).collect());
                o
            }) {
                Ok(o) => o,
                Err(p) => json!({"panic": p}),
            };
            let text = serde_json::to_string(&o)?;
            let mut row = json!({"a": "observe", "prog": format!("d{}p{}", seed, i), "cfg": cfg, "digest": fnv(&text)});
            if full {
                row["obs"] = o;
                row["src"] = json!(src);
                row["tie_srcs"] = json!(ties);
            }
            rows.push(row);
        }
        Ok(rows)
    };
    let rows = if thread {
        std::thread::Builder::new().stack_size(64 << 20).spawn(work).unwrap().join().unwrap()?
    } else {
        work()?
    };
    drop(keep);
    for r in rows {
        out.write(&r)?;
    }
    out.finish()
}

//! vh: the Rust side of the model-based checks. Executes TLC-generated cases against the real
//! crates (`replay`) and drives the real code to record traces for TLC to validate (`record`).
//! A panic in the code under test is an observation, never a tool error.
#![allow(clippy::all)]
#![allow(dead_code)]

mod engines;
mod util;

use std::process::ExitCode;

fn usage() -> ExitCode {
    eprintln!("usage: vh replay <engine> <cases.ndjson> <out.ndjson> [opts]\n       vh record <engine> <out.ndjson> [--seed S] [--n N] [opts]");
    ExitCode::from(2)
}

fn main() -> ExitCode {
    let args: Vec<String> = std::env::args().collect();
    if args.len() < 3 {
        return usage();
    }
    // Panics in code under test are caught per case; keep the default hook quiet.
    std::panic::set_hook(Box::new(|info| {
        util::LAST_PANIC.with(|p| *p.borrow_mut() = Some(format!("{}", info)));
    }));
    let r = engines::dispatch(&args[1], &args[2], &args[3..]);
    match r {
        Ok(()) => ExitCode::SUCCESS,
        Err(e) => {
            eprintln!("vh: {:#}", e);
            ExitCode::from(2)
        }
    }
}
